"""E6: embedded SQL extraction and agreement with DB_SCHEMA (SQLite's statement compiler on an empty in-memory schema)."""
from __future__ import annotations

import ast
import re
import sqlite3

from .model import AnalysisError, FuncInfo, Model, NotConst

HANDLER = "gallia.db.handler"


def schema_db(m: Model) -> sqlite3.Connection:
    mod = m.module(HANDLER)
    if "DB_SCHEMA" not in mod.assigns:
        raise AnalysisError("DB_SCHEMA vanished from gallia.db.handler")
    try:
        schema = m.fold(mod, mod.assigns["DB_SCHEMA"])
    except NotConst as e:
        raise AnalysisError(f"DB_SCHEMA is not a foldable string: {e}") from e
    con = sqlite3.connect(":memory:")
    try:
        con.executescript(schema)
    except sqlite3.Error as e:
        raise AnalysisError(f"DB_SCHEMA does not compile: {e}") from e
    return con


def sql_literals(m: Model, fn: FuncInfo) -> list[tuple[str, int]]:
    """String constants in fn that look like SQL statements (folded, incl. implicit concatenation)."""
    out = []
    for n in ast.walk(fn.node):
        if isinstance(n, (ast.Constant, ast.JoinedStr, ast.BinOp)):
            try:
                v = m.fold(fn.module, n)
            except NotConst:
                continue
            if isinstance(v, str) and re.match(r"\s*(INSERT|UPDATE|SELECT|DELETE)\b", v, re.I):
                out.append((v, n.lineno))
    # keep maximal strings only
    uniq = []
    for s, ln in out:
        if not any(s != t and s in t for t, _ in out) and (s, ln) not in uniq:
            uniq.append((s, ln))
    return uniq


def compile_sql(con: sqlite3.Connection, sql: str) -> str | None:
    try:
        con.execute("EXPLAIN " + sql, tuple([None] * sql.count("?")))
        return None
    except sqlite3.Error as e:
        return str(e)


def insert_columns(sql: str) -> list[str] | None:
    mt = re.match(r"\s*INSERT(?:\s+OR\s+\w+)?\s+INTO\s+\w+\s*\(([^)]*)\)\s*VALUES\s*\(", sql, re.I | re.S)
    if not mt:
        return None
    return [c.strip() for c in mt.group(1).split(",")]
