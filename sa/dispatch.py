"""One view on `match` statements and on if / elif chains that dispatch on one subject.

A maintainer may write the same dispatch as

    match hdr.CWord:                      if hdr.CWord == A or hdr.CWord == B: ...      if isinstance(frame, tuple): return ...
        case A | B: ...                   elif hdr.CWord == C: ...                      if isinstance(frame, int): ...
        case C: ...                       else: ...                                     raise ...
        case _: ...

The rules that need "the arm for X" / "is there a catch-all arm" ask this module instead of looking for ast.Match.

  arms(fn_node, subject_text) -> list[Arm] | None

Arm.patterns: labels in the spelling of match patterns (`HSFZStatus.Ack`, `int()`, `'.zst'`), [] for the default arm; Arm.body: statements;
Arm.guard: extra condition text or None.  None: no dispatch on that subject was found (or two were, or a test cannot be read as a pattern).
"""
from __future__ import annotations

import ast
from dataclasses import dataclass, field


@dataclass
class Arm:
    patterns: list[str]
    body: list[ast.stmt]
    guard: str | None = None
    node: ast.AST | None = None
    default: bool = False
    extra: dict = field(default_factory=dict)


def _terminates(block: list[ast.stmt]) -> bool:
    if not block:
        return False
    last = block[-1]
    if isinstance(last, (ast.Return, ast.Raise, ast.Continue, ast.Break)):
        return True
    if isinstance(last, ast.If):
        return _terminates(last.body) and _terminates(last.orelse)
    return False


def _pattern_labels(p: ast.pattern) -> list[str] | None:
    if isinstance(p, ast.MatchOr):
        out: list[str] = []
        for q in p.patterns:
            sub = _pattern_labels(q)
            if sub is None:
                return None
            out += sub
        return out
    if isinstance(p, ast.MatchValue):
        return [ast.unparse(p.value)]
    if isinstance(p, ast.MatchSingleton):
        return [repr(p.value)]
    if isinstance(p, ast.MatchClass) and not p.patterns and not p.kwd_patterns:
        return [ast.unparse(p.cls) + "()"]
    if isinstance(p, ast.MatchAs) and p.pattern is None:
        return []
    return None


def _test_labels(t: ast.expr, subject: str) -> tuple[list[str], str | None] | None:
    """Read a test of an if-chain as patterns on `subject` (+ an optional guard): `s == V`, `V == s`, `s in (V1, V2)`, `isinstance(s, C)`,
    `isinstance(s, (C1, C2))`, an `or` of those, and `<that> and <guard>`."""
    if isinstance(t, ast.BoolOp) and isinstance(t.op, ast.Or):
        out: list[str] = []
        for v in t.values:
            sub = _test_labels(v, subject)
            if sub is None or sub[1] is not None:
                return None
            out += sub[0]
        return out, None
    if isinstance(t, ast.BoolOp) and isinstance(t.op, ast.And) and len(t.values) >= 2:
        first = _test_labels(t.values[0], subject)
        if first is None or first[1] is not None:
            return None
        return first[0], " and ".join(ast.unparse(v) for v in t.values[1:])
    if isinstance(t, ast.Compare) and len(t.ops) == 1:
        a, b = t.left, t.comparators[0]
        if isinstance(t.ops[0], ast.Eq):
            if ast.unparse(a) == subject:
                return [ast.unparse(b)], None
            if ast.unparse(b) == subject:
                return [ast.unparse(a)], None
        if isinstance(t.ops[0], ast.Is) and ast.unparse(a) == subject and isinstance(b, ast.Constant):
            return [repr(b.value)], None
        if isinstance(t.ops[0], ast.In) and ast.unparse(a) == subject and isinstance(b, (ast.Tuple, ast.List, ast.Set)):
            return [ast.unparse(x) for x in b.elts], None
    if isinstance(t, ast.Call) and ast.unparse(t.func) == "isinstance" and len(t.args) == 2 and ast.unparse(t.args[0]) == subject:
        cs = t.args[1].elts if isinstance(t.args[1], ast.Tuple) else [t.args[1]]
        return [ast.unparse(c) + "()" for c in cs], None
    return None


def _chain_from(block: list[ast.stmt], i: int, subject: str) -> tuple[list[Arm], int] | None:
    """An if-chain on `subject` starting at block[i]: elif nesting and / or consecutive ifs whose bodies do not fall through; the statements after the
    last such `if` (to the end of the block) are the default arm when the chain is made of terminating ifs, the final `else` otherwise."""
    arms: list[Arm] = []
    st = block[i]
    j = i
    while True:
        if not isinstance(st, ast.If):
            return None
        lab = _test_labels(st.test, subject)
        if lab is None:
            break
        arms.append(Arm(lab[0], st.body, lab[1], st))
        if st.orelse:
            if len(st.orelse) == 1 and isinstance(st.orelse[0], ast.If) and _test_labels(st.orelse[0].test, subject) is not None:
                st = st.orelse[0]
                continue
            arms.append(Arm([], st.orelse, None, st, True))
            return arms, j
        # no else: the chain goes on with the next statement of the block if this arm cannot fall through
        if _terminates(st.body) and j + 1 < len(block) and isinstance(block[j + 1], ast.If) and _test_labels(block[j + 1].test, subject) is not None:
            j += 1
            st = block[j]
            continue
        if _terminates(st.body) and j + 1 < len(block):
            arms.append(Arm([], block[j + 1:], None, st, True))
            return arms, len(block) - 1
        return arms, j
    return (arms, j) if arms else None


def arms(fn_node: ast.AST, subject: str) -> list[Arm] | None:
    found: list[list[Arm]] = []
    for n in ast.walk(fn_node):
        if isinstance(n, ast.Match) and ast.unparse(n.subject) == subject:
            out: list[Arm] = []
            ok = True
            for c in n.cases:
                labs = _pattern_labels(c.pattern)
                if labs is None:
                    ok = False
                    break
                out.append(Arm(labs, c.body, ast.unparse(c.guard) if c.guard is not None else None, c, default=not labs and c.guard is None))
            if ok:
                found.append(out)
    if not found:
        seen: set[int] = set()
        for owner in ast.walk(fn_node):
            for fld in ("body", "orelse", "finalbody"):
                block = getattr(owner, fld, None)
                if not (isinstance(block, list) and block and isinstance(block[0], ast.stmt)):
                    continue
                i = 0
                while i < len(block):
                    st = block[i]
                    if isinstance(st, ast.If) and id(st) not in seen and _test_labels(st.test, subject) is not None:
                        res = _chain_from(block, i, subject)
                        if res is not None and (len(res[0]) >= 2):
                            for a in res[0]:
                                if a.node is not None:
                                    seen.add(id(a.node))
                                    # nested elifs are reached through orelse: mark them too
                            x = st
                            while isinstance(x, ast.If):
                                seen.add(id(x))
                                x = x.orelse[0] if len(x.orelse) == 1 and isinstance(x.orelse[0], ast.If) else None
                            found.append(res[0])
                            i = res[1]
                    i += 1
    if len(found) != 1:
        return None
    return found[0]


def arm_for(arm_list: list[Arm], label: str) -> Arm | None:
    return next((a for a in arm_list if label in a.patterns), None)


def default_arm(arm_list: list[Arm]) -> Arm | None:
    return next((a for a in arm_list if a.default), None)
