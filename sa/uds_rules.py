"""Rules about gallia.services.uds.helpers.parse_pdu shared by the matching (C03) and the request-outcome (C04) properties."""
from __future__ import annotations

import ast

from sa.model import AnalysisError, Model
from sa.report import Report

HELPERS = "gallia.services.uds.helpers"


def parse_pdu_request_consistency(m: Model, r: Report, rid: str) -> None:
    """The decision "compare by service id only" (raw request) and the typed matches() call must look at the *same*,
    dynamically re-parsed request object."""
    pp = m.require_function(f"{HELPERS}.parse_pdu")
    body = pp.node.body
    parsed_var = None
    for s in body:
        if isinstance(s, ast.Assign) and "parse_dynamic(request.pdu)" in ast.unparse(s.value) and isinstance(s.targets[0], ast.Name):
            parsed_var = s.targets[0].id
    if parsed_var is None:
        raise AnalysisError("parse_pdu: dynamic parse of the request not found")
    ifs = [s for s in body if isinstance(s, ast.If)]
    okc = False
    detail = ""
    for s in ifs:
        test = ast.unparse(s.test)
        if "RawRequest" in test:
            tested = [n.args[0].id for n in ast.walk(s.test) if isinstance(n, ast.Call) and ast.unparse(n.func) == "isinstance"
                      and isinstance(n.args[0], ast.Name) and "RawRequest" in ast.unparse(n.args[1])]
            matched = [n.args[0].id for n in ast.walk(s) if isinstance(n, ast.Call) and isinstance(n.func, ast.Attribute)
                       and n.func.attr == "matches" and n.args and isinstance(n.args[0], ast.Name)]
            detail = f"isinstance(RawRequest) tests {tested}, matches() is given {matched}"
            okc = tested == [parsed_var] and matched == [parsed_var]
            resp_vars = {n.func.value.id for n in ast.walk(s) if isinstance(n, ast.Call) and isinstance(n.func, ast.Attribute)
                         and n.func.attr == "matches" and isinstance(n.func.value, ast.Name)}
            sid_fallback = any(isinstance(n, ast.Compare) and any(f"{rv}.service_id" in ast.unparse(n) for rv in resp_vars) and "request.service_id" in ast.unparse(n)
                               for n in ast.walk(s))
            r.check(sid_fallback, rid, f"{pp.qualname}#raw-fallback-service-id",
                    "the raw-request fallback does not compare response.service_id with request.service_id", loc=pp.loc)
    r.check(okc, rid, f"{pp.qualname}#same-parsed-request",
            f"{detail}; both must use the dynamically parsed request {parsed_var}: otherwise typed replies to raw requests are only "
            "compared by service id (stale identifiers accepted) or typed requests that re-parse as raw are refused", loc=pp.loc)
