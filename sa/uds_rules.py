"""Rules about gallia.services.uds.helpers.parse_pdu shared by the matching (C03) and the request-outcome (C04) properties."""
from __future__ import annotations

import ast

from sa.model import ClassInfo, AnalysisError, Model
from sa.report import Report

HELPERS = "gallia.services.uds.helpers"


def parse_pdu_request_consistency(m: Model, r: Report, rid: str) -> None:
    """The decision "compare by service id only" (raw request) and the typed matches() call must look at the *same*,
    dynamically re-parsed request object."""
    pp = m.require_function(f"{HELPERS}.parse_pdu")
    body = pp.node.body
    parsed_var = None
    for s in body:
        if isinstance(s, ast.Assign) and "parse_dynamic(request.pdu)" in ast.unparse(s.value) and isinstance(s.targets[0], ast.Name):
            parsed_var = s.targets[0].id
    if parsed_var is None:
        src_pp = ast.unparse(pp.node)
        if "parse_dynamic(request" not in src_pp and ".matches(" in src_pp:
            r.check(False, rid, f"{pp.qualname}#reparsed-request", "the reply is matched against the request object as given, without re-parsing request.pdu: a request sent as "
                    "RawRequest with a well-formed PDU (send_raw) is then compared by service id only, and a stale reply of the same service is accepted", loc=pp.loc)
            return
        raise AnalysisError("parse_pdu: dynamic parse of the request not found")
    ifs = [s for s in body if isinstance(s, ast.If)]
    okc = False
    detail = ""
    for s in ifs:
        test = ast.unparse(s.test)
        if "RawRequest" in test:
            tested = [n.args[0].id for n in ast.walk(s.test) if isinstance(n, ast.Call) and ast.unparse(n.func) == "isinstance"
                      and isinstance(n.args[0], ast.Name) and "RawRequest" in ast.unparse(n.args[1])]
            matched = [n.args[0].id for n in ast.walk(s) if isinstance(n, ast.Call) and isinstance(n.func, ast.Attribute)
                       and n.func.attr == "matches" and n.args and isinstance(n.args[0], ast.Name)]
            detail = f"isinstance(RawRequest) tests {tested}, matches() is given {matched}"
            okc = tested == [parsed_var] and matched == [parsed_var]
            resp_vars = {n.func.value.id for n in ast.walk(s) if isinstance(n, ast.Call) and isinstance(n.func, ast.Attribute)
                         and n.func.attr == "matches" and isinstance(n.func.value, ast.Name)}
            sid_fallback = any(isinstance(n, ast.Compare) and any(f"{rv}.service_id" in ast.unparse(n) for rv in resp_vars) and "request.service_id" in ast.unparse(n)
                               for n in ast.walk(s))
            r.check(sid_fallback, rid, f"{pp.qualname}#raw-fallback-service-id",
                    "the raw-request fallback does not compare response.service_id with request.service_id", loc=pp.loc)
    # the service-id-only comparison replaces the typed matcher exactly for raw (re-parsed) requests with a non-negative reply
    from sa import miniterp
    raw_ifs = [s_ for s_ in ifs if "RawRequest" in ast.unparse(s_.test)]
    if len(raw_ifs) == 1:
        resp_names = {n.func.value.id for n in ast.walk(raw_ifs[0]) if isinstance(n, ast.Call) and isinstance(n.func, ast.Attribute) and n.func.attr == "matches"
                      and isinstance(n.func.value, ast.Name)}
        bad = []
        for pk in ("RawRequest", "TypedRequest"):
            for rk in ("NegativeResponse", "RawPositiveResponse", "TypedPositiveResponse"):
                def oracle(call, env, pk=pk, rk=rk):
                    if ast.unparse(call.func) == "isinstance" and len(call.args) == 2 and isinstance(call.args[0], ast.Name):
                        names = [ast.unparse(x).split(".")[-1] for x in (call.args[1].elts if isinstance(call.args[1], ast.Tuple) else [call.args[1]])]
                        if call.args[0].id in resp_names:
                            return rk in names
                        return pk in names          # the caller's object and its re-parse are not distinguished here (same-parsed-request does that)
                    return NotImplemented
                taken = bool(miniterp.eval_expr(raw_ifs[0].test, {}, oracle))
                if taken != (pk == "RawRequest" and rk != "NegativeResponse"):
                    bad.append(f"request re-parses as {pk}, reply is a {rk} -> {'service id only' if taken else 'typed matcher'}")
        r.check(not bad, rid, f"{pp.qualname}#fallback-condition",
                f"{bad}: only a request that re-parses as raw may be matched by service id alone; every other pair goes through matches() (for undecodable "
                "positive replies that is RawPositiveResponse.matches with the echo heuristic)", loc=pp.loc)
    r.check(okc, rid, f"{pp.qualname}#same-parsed-request",
            f"{detail}; both must use the dynamically parsed request {parsed_var}: otherwise typed replies to raw requests are only "
            "compared by service id (stale identifiers accepted) or typed requests that re-parse as raw are refused", loc=pp.loc)


def request_roundtrip_guard(m: Model, r: Report, rid: str) -> None:
    """UDSRequest.from_pdu only returns an object whose serialisation equals the given bytes: otherwise parse_dynamic(x).pdu != x
    for non-canonical encodings, which (a) lets a lossy parse pass for a typed request and (b) makes the logged request bytes differ
    from the transmitted ones."""
    from sa.cfg import CFG
    SERVICE = "gallia.services.uds.core.service"
    fp = m.require_function(f"{SERVICE}.UDSRequest.from_pdu")
    g = CFG(fp.node)
    rets = [n for n in g.nodes.values() if n.kind == "return" and isinstance(n.ast, ast.Return) and n.ast.value is not None]
    if not rets:
        raise AnalysisError(f"{fp.qualname}: no return")
    pdu_param = fp.params()[1] if len(fp.params()) > 1 else "pdu"
    ok_all = True
    for rt in rets:
        if not isinstance(rt.ast.value, ast.Name):
            ok_all = False
            continue
        res = rt.ast.value.id
        guards = set()
        for n in g.nodes.values():
            a = n.ast
            test = a.test if isinstance(a, ast.Assert) else (a if n.kind == "cond" else None)
            if test is None:
                continue
            for c in ast.walk(test):
                if isinstance(c, ast.Compare) and len(c.ops) == 1 and isinstance(c.ops[0], (ast.Eq, ast.NotEq)) and \
                        {ast.unparse(c.left), ast.unparse(c.comparators[0])} == {f"{res}.pdu", pdu_param}:
                    guards.add(n.id)
        ok, _ = g.must_pass(g.entry, guards, {rt.id}) if guards else (False, [])
        ok_all = ok_all and ok
    r.check(ok_all, rid, f"{fp.qualname}#reserialisation-checked",
            "from_pdu can return a request object without having compared its serialisation with the parsed bytes: parse_dynamic(x).pdu may then differ "
            "from x (non-canonical encodings are neither rejected nor kept as RawRequest)", loc=fp.loc)
    pd = m.require_function(f"{SERVICE}.UDSRequest.parse_dynamic")
    r.check(any(isinstance(n, ast.Return) and n.value is not None and ast.unparse(n.value) == f"RawRequest({pd.params()[1] if len(pd.params()) > 1 else 'pdu'})"
                for n in ast.walk(pd.node)), rid, f"{pd.qualname}#raw-keeps-bytes", "the raw fallback must wrap the unmodified bytes", loc=pd.loc)


def parse_dynamic_total(m: Model, r: Report, rid: str) -> None:
    """UDSRequest.parse_dynamic never raises: every failure of a typed parser (ValueError, IndexError, struct.error and the
    AssertionError of the round-trip check) ends in RawRequest(pdu)."""
    SERVICE = "gallia.services.uds.core.service"
    pd = m.require_function(f"{SERVICE}.UDSRequest.parse_dynamic")
    hs = [h for t in ast.walk(pd.node) if isinstance(t, ast.Try) for h in t.handlers]
    r.check(len(hs) == 1 and hs[0].type is not None and ast.unparse(hs[0].type) in ("Exception", "BaseException") and
            any(isinstance(s, ast.Return) and ast.unparse(s.value) == "RawRequest(pdu)" for s in hs[0].body), rid, f"{pd.qualname}#raw-fallback",
            f"the dynamic request parser catches {[ast.unparse(h.type) if h.type else '<bare>' for h in hs]}: every failure of a typed parser (incl. the "
            "round-trip AssertionError) must fall back to RawRequest, otherwise the server raises and drops the connection", loc=pd.loc)


def busy_branch(m: Model):
    """Decision facts of the busyRepeatRequest branch of UDSClient.request_unsafe, from path conditions (any nesting / guard-clause / inverted
    spelling): returns (fn, returns, continues, iv, mr) where returns / continues are [(stmt, literals)] reached only when the reply's code equals
    busyRepeatRequest; None when the retry loop or its bound cannot be identified."""
    from sa.model import walk_no_nested
    from sa.util import path_condition, norm_conds
    fn = m.require_function("gallia.services.uds.core.client.UDSClient.request_unsafe")
    fors = [n for n in walk_no_nested(fn.node) if isinstance(n, ast.For) and isinstance(n.target, ast.Name) and isinstance(n.iter, ast.Call) and ast.unparse(n.iter.func) == "range"]
    if len(fors) != 1:
        return None
    iv = fors[0].target.id
    bound = fors[0].iter.args[-1] if len(fors[0].iter.args) <= 2 else None
    # range(max_retry + 1): the name of the retry bound
    mr = next((x.id for x in ast.walk(bound) if isinstance(x, ast.Name)), None) if bound is not None else None
    if mr is None:
        return None
    rets, conts = [], []
    for n in ast.walk(fors[0]):
        if isinstance(n, (ast.Return, ast.Continue)):
            lits = norm_conds(path_condition(fn.node, n))
            if any("busyRepeatRequest" in t and "==" in t and v for t, v in lits):
                (rets if isinstance(n, ast.Return) else conts).append((n, lits))
    return fn, rets, conts, iv, mr


def _attempt_cases(fn, stmt, iv: str, mr: str, expect) -> list[str]:
    """Rows (i, max_retry) with 0 <= i <= max_retry <= 2 on which stmt is reached although expect says no, or the other way round. Tests that read
    i / max_retry take part, and so do tests on locals whose value is chosen under such a test (`w = wait if i < max_retry else None; if w is not None`):
    those locals are resolved per row through their assignments."""
    from sa.util import path_condition, choice_table
    from sa import miniterp
    from sa.model import AnalysisError
    all_conds = path_condition(fn.node, stmt)

    def names(t):
        return {x.id for x in ast.walk(t) if isinstance(x, ast.Name)}
    direct = [(t, p) for t, p in all_conds if names(t) & {iv, mr}]
    # locals decided by i / max_retry
    derived: dict[str, None] = {}
    for t, p in all_conds:
        for nm in names(t) - {iv, mr}:
            defs = [a for a in ast.walk(fn.node) if isinstance(a, ast.Assign) and len(a.targets) == 1 and isinstance(a.targets[0], ast.Name) and a.targets[0].id == nm]
            if defs and any(names(c[0]) & {iv, mr} for a in defs for c in path_condition(fn.node, a)):
                derived[nm] = None
    indirect = [(t, p) for t, p in all_conds if names(t) & set(derived) and not names(t) & {iv, mr}]
    bad = []
    for b in range(3):
        for a in range(b + 1):
            env = {iv: a, mr: b}
            for nm in derived:
                src = choice_table(fn.node, nm, {iv: [a], mr: [b]})[(a, b)]
                if src is None:
                    raise AnalysisError(f"{nm} has no value for {iv}={a}, {mr}={b}")
                e_ = ast.parse(src, mode="eval").body
                unknown = {x: "VALUE" for x in names(e_) - set(env)}
                env[nm] = miniterp.eval_expr(e_, {**env, **unknown})
            taken = all(bool(miniterp.eval_expr(t, dict(env))) == p for t, p in direct + indirect)
            if taken != bool(expect(env)):
                bad.append(f"{iv}={a}, {mr}={b} -> {'taken' if taken else 'skipped'}")
    return bad


def busy_last_attempt(m: Model, r: Report, rid: str, with_retry: bool = False) -> None:
    """UDSClient.request_unsafe: a busyRepeatRequest answer on the last attempt is returned to the caller (it is an answer of an
    implemented service), it is not turned into a missing response; before the last attempt it starts the next one."""
    fn = m.require_function("gallia.services.uds.core.client.UDSClient.request_unsafe")
    facts = busy_branch(m)
    if facts is None:
        r.unrecognised(rid, f"{fn.qualname}#busy-last-attempt", "retry loop `for i in range(<bound>)` not identified", fn.loc)
        return
    fn, rets, conts, iv, mr = facts
    # within the loop i <= max_retry; the reply must be returned exactly on the last attempt (i == max_retry)
    good = [n for n, _ in rets if isinstance(n.value, ast.Name) and not _attempt_cases(fn, n, iv, mr, lambda a: a[iv] >= a[mr])]
    r.check(bool(good), rid, f"{fn.qualname}#busy-last-attempt", "busyRepeatRequest on the last attempt must be returned to the caller "
            "(scanners classify it as 'the service answers'; as a MissingResponse it is logged as a timeout and the service is not reported); "
            f"returns under the busy condition: {[ast.unparse(n) for n, _ in rets]}", loc=fn.loc)
    if with_retry:
        goodc = [n for n, _ in conts if not _attempt_cases(fn, n, iv, mr, lambda a: a[iv] < a[mr])]
        r.check(bool(goodc), rid, f"{fn.qualname}#busy-retries", "busyRepeatRequest before the last attempt must start the next attempt", loc=fn.loc)
        neg = all(any("isinstance(" in t and "NegativeResponse" in t and v for t, v in lits) for _, lits in rets + conts)
        r.check(neg and bool(rets + conts), rid, f"{fn.qualname}#busy-condition", "the busy branch must be an equality test on the code of a negative response", loc=fn.loc)


def iso_tables(m: Model, r: Report, rid: str, what: str = "both") -> None:
    """The numeric values of UDSErrorCodes / UDSIsoServices equal the ISO 14229-1 tables (a wrong entry makes a genuine reply undecodable
    and a reserved value acceptable, or routes a service to the wrong classes)."""
    from sa.oracles import iso14229
    CONST = "gallia.services.uds.core.constants"
    for cname, table in (("UDSErrorCodes", iso14229.NRC), ("UDSIsoServices", iso14229.SERVICE_IDS)):
        if what != "both" and what != cname:
            continue
        c = m.require_class(f"{CONST}.{cname}")
        mem = m.enum_members(c)
        if not mem:
            raise AnalysisError(f"{c.qualname}: enum members not found")
        wrong = {k: (mem.get(k), v) for k, v in table.items() if mem.get(k) != v}
        r.check(not wrong, rid, f"{c.qualname}#iso-values",
                "; ".join(f"{k} = {got if got is None else hex(got)} (ISO 14229-1: {want:#04x})" for k, (got, want) in sorted(wrong.items())[:4]), loc=c.loc)
        dup = {}
        for k, v in mem.items():
            dup.setdefault(v, []).append(k)
        clash = {hex(v): ks for v, ks in dup.items() if len(ks) > 1 and isinstance(v, int)}
        r.check(not clash, rid, f"{c.qualname}#distinct-values", f"several names share a value (later ones become aliases): {clash}", loc=c.loc)


def iso_subfunction_tables(m: Model, r: Report, rid: str) -> None:
    """The sub-function / parameter enums of core.constants carry the ISO 14229-1 values: request and response classes, registry and server all read the
    same enum, so a renumbered member is invisible to every internal consistency check and only the wire is wrong."""
    from sa.oracles import iso14229
    CONST = "gallia.services.uds.core.constants"
    n = 0
    for cname, table in iso14229.SUBFUNCTION_TABLES.items():
        c = m.require_class(f"{CONST}.{cname}")
        mem = m.enum_members(c)
        if not mem:
            raise AnalysisError(f"{c.qualname}: enum members not found")
        n += 1
        wrong = {k: (mem.get(k), v) for k, v in table.items() if k in mem and mem.get(k) != v}
        taken = {v: k for k, v in table.items()}
        foreign = {k: v for k, v in mem.items() if k not in table and isinstance(v, int) and v in taken and taken[v] not in mem}
        r.check(not wrong, rid, f"{c.qualname}#iso-values",
                "; ".join(f"{k} = {got:#04x} (ISO 14229-1: {want:#04x})" for k, (got, want) in sorted(wrong.items())[:4]), loc=c.loc)
        dup = {}
        for k, v in mem.items():
            dup.setdefault(v, []).append(k)
        clash = {hex(v): ks for v, ks in dup.items() if len(ks) > 1 and isinstance(v, int)}
        r.check(not clash, rid, f"{c.qualname}#distinct-values", f"several names share a value (later ones become aliases): {clash}", loc=c.loc)
        unknown = sorted(k for k in mem if k not in table)
        if unknown:
            r.note("enum members without an oracle value", f"{c.qualname}: {unknown}")
    for cname, needed in iso14229.VALUE_COVERAGE.items():
        c = m.require_class(f"{CONST}.{cname}")
        have = set((m.enum_members(c) or {}).values())
        missing = {v: nm for v, nm in needed.items() if v not in have}
        lenient = any("_missing_" in k.methods for k in m.mro(c))
        r.check(not missing or lenient, rid, f"{c.qualname}#covers-iso-values", f"{cname} has no member for {', '.join(f'{v:#04x} ({nm})' for v, nm in sorted(missing.items()))}: "
                "a genuine reply carrying that value is refused as malformed (the enum coercion raises)", loc=c.loc)
    if n < 8:
        raise AnalysisError("sub-function enums not found")


def serialiser_keeps_order(m: Model, r: Report, rid: str, base_qual: str) -> int:
    """Serialisers write repeated records in the order in which they are stored (= received): no serialising method of a codec class iterates
    `sorted(...)`, `reversed(...)` or a `set(...)` of one of its stored collections."""
    PARSE = {"__init__", "_from_pdu", "from_pdu", "parse_dynamic", "matches", "_check_pdu", "__repr__", "__str__"}
    base = m.require_class(base_qual)
    n = 0
    for c in [base] + list(m.subclasses(base)):
        for f in list(c.methods.values()) + list(getattr(c, "properties", {}).values() if isinstance(getattr(c, "properties", None), dict) else []):
            if f.name in PARSE:
                continue
            n += 1
            for call in ast.walk(f.node):
                if isinstance(call, ast.Call) and isinstance(call.func, ast.Name) and call.func.id in ("sorted", "reversed", "set", "frozenset") and call.args and \
                        any(isinstance(x, ast.Attribute) and isinstance(x.value, ast.Name) and x.value.id == "self" for x in ast.walk(call.args[0])):
                    in_iter = any((isinstance(p, (ast.For, ast.comprehension)) and any(x is call for x in ast.walk(p.iter))) for p in ast.walk(f.node))
                    r.check(not in_iter, rid, f"{f.qualname}#stored-order", f"`{ast.unparse(call)[:70]}` iterates a stored collection in another order than it was received: "
                            "a valid PDU with records in a different order re-serialises as a permutation of its bytes", loc=f"{f.module.relpath}:{call.lineno}")
    return n


def range_helpers_rule(m: Model, r: Report, rid: str) -> None:
    """The value-range helpers of core.utils accept exactly the documented closed ranges (finite-domain evaluation at and around both ends):
    check_data_identifier 0..0xFFFF, check_sub_function 0..0x7F, check_range(lo..hi) inclusive."""
    from sa.util import accepts_domain
    U = "gallia.services.uds.core.utils"
    for helper, lo, hi in (("check_data_identifier", 0, 0xFFFF), ("check_sub_function", 0, 0x7F)):
        dom = [lo - 1, lo, lo + 1, hi - 1, hi, hi + 1]
        refused = accepts_domain(m, f"{U}.{helper}", dom)
        r.check(refused == [lo - 1, hi + 1], rid, f"{U}.{helper}#closed-range", f"{helper} refuses {[hex(v) for v in refused]} of {[hex(v) for v in dom]}: it must accept exactly "
                f"{lo:#x}..{hi:#x} (a refused end value makes valid requests / replies with that identifier unparsable)", loc="src/gallia/services/uds/core/utils.py")
    from sa import miniterp
    cr = m.require_function(f"{U}.check_range")
    pars = cr.params()
    if len(pars) != 4:
        raise AnalysisError(f"{cr.qualname}: expected (data, name, min_value, max_value)")
    bad = []
    for v in (4, 5, 6, 9, 10, 11):
        try:
            miniterp.run_function(cr.node, {pars[0]: v, pars[1]: "x", pars[2]: 5, pars[3]: 10}, lambda call, env: "" if ast.unparse(call.func) in ("int_repr", "g_repr", "hex", "repr", "str") else NotImplemented)
            got = True
        except miniterp.Raised:
            got = False
        if got != (5 <= v <= 10):
            bad.append(v)
    r.check(not bad, rid, f"{cr.qualname}#closed-range", f"check_range(v, .., 5, 10) decides wrongly for {bad}: both bounds are inclusive", loc=cr.loc)


def client_helpers_forward_config(m: Model, r: Report, rid: str) -> int:
    """Every UDSClient service helper that takes a per-request config hands it to self.request(...): the config carries the caller's tags (ANALYZE marks a row
    as emphasized in the database), retry and timeout overrides."""
    client = m.require_class("gallia.services.uds.core.client.UDSClient")
    n = 0
    for name, fn in client.methods.items():
        if "config" not in fn.params():
            continue
        calls = [c for c in ast.walk(fn.node) if isinstance(c, ast.Call) and isinstance(c.func, ast.Attribute) and isinstance(c.func.value, ast.Name) and c.func.value.id == "self"
                 and c.func.attr in ("request", "_request", "request_unsafe", "send_raw")]
        for c in calls:
            n += 1
            okc = any(isinstance(a, ast.Name) and a.id == "config" for a in c.args[1:]) or any(k.arg == "config" and isinstance(k.value, ast.Name) and k.value.id == "config" for k in c.keywords)
            r.check(okc, rid, f"{fn.qualname}#forwards-config", f"`{ast.unparse(c)[:70]}` does not receive the caller's config: tags (ANALYZE -> emphasized rows), max_retry and "
                    "timeout overrides of this call are lost", loc=f"{fn.module.relpath}:{c.lineno}")
    return n


def request_codec_obligations(m: Model, r: Report, rid: str, tier: str, rules: tuple[str, ...] = ("R1", "R3", "R4", "R11", "R13")) -> int:
    """Re-evaluates the request codec obligations of C01 (byte identity, suppress-bit routing, no raising serialiser, round-trip guard) for a property that
    depends on well-formed requests being parsed as typed requests (the virtual ECU applies its rules to the typed request; an unparsable one gets 0x13)."""
    from checks import c01 as _c01
    from sa.report import Report as _Report
    sub = _Report("C01", tier, "")
    try:
        _c01.run(m, sub, tier)
    except AnalysisError as e:
        if not any(v["rule"] in rules for v in sub.violations):
            raise AnalysisError(f"request codec analysis (C01 engine) stopped: {e}")
    n = sum(1 for o in sub.obligations if o["rule"] in rules)
    if n < 80:
        raise AnalysisError(f"only {n} request codec obligations evaluated")
    for v in sub.violations:
        if v["rule"] in rules:
            r.check(False, rid, f"request-codec:{v['construct']}", "a well-formed request is not parsed as the typed request it is: " + v["message"][:500], loc=v["loc"])
    r.ok(rid, "request-codec", f"{n} request codec obligations hold")
    return n


def negative_route_strict(m: Model, r: Report, rid: str) -> None:
    """UDSResponse.parse_dynamic hands every frame starting with 0x7F to NegativeResponse.from_pdu and lets its ValueError through: a malformed negative
    response (wrong length, unknown response code) is reported as an illegal response, never turned into an untyped 'negative' object that the client's
    busy / pending logic does not recognise and therefore returns as the final answer."""
    pd = m.require_function("gallia.services.uds.core.service.UDSResponse.parse_dynamic")
    rets = [n for n in ast.walk(pd.node) if isinstance(n, ast.Return) and n.value is not None and ast.unparse(n.value).startswith("NegativeResponse.from_pdu(")]
    in_try = [n for n in rets if any(isinstance(t, ast.Try) and t.handlers and any(n is x for b in t.body for x in ast.walk(b)) for t in ast.walk(pd.node))]
    raw_neg = [n.lineno for n in ast.walk(pd.node) if isinstance(n, ast.Call) and ast.unparse(n.func).endswith("RawNegativeResponse")]
    r.check(len(rets) == 1 and not in_try and not raw_neg, rid, f"{pd.qualname}#negative-route-strict",
            f"frames starting with 0x7F: {len(rets)} direct routes to NegativeResponse.from_pdu, {len(in_try)} inside a try with handlers, raw negative fallbacks at lines {raw_neg}: "
            "a malformed negative response must raise (MalformedResponse), not become an untyped object that ends the request as its 'final reply'", loc=pd.loc)


def guarded_enum_coercions(m: Model, r: Report, rid: str, module_prefixes: tuple[str, ...]) -> int:
    """A try block around an enum coercion `E(value)` states the belief that the coercion can fail; it fails with ValueError (an Enum without `_missing_`), so
    the handlers must catch ValueError (or Exception).  Catching something else leaves the failure unhandled - in the UDS helpers that is the repr() of a
    request / response with an unknown service id, which is evaluated inside log calls of exception handlers."""
    n = 0
    for f in m.functions():
        if not f.module.name.startswith(module_prefixes):
            continue
        for t in ast.walk(f.node):
            if not isinstance(t, ast.Try) or not t.handlers:
                continue
            for call in [c for b in t.body for c in ast.walk(b) if isinstance(c, ast.Call) and isinstance(c.func, (ast.Name, ast.Attribute)) and len(c.args) == 1 and not c.keywords]:
                target = m.resolve_expr(f.module, call.func, f.cls)
                if not isinstance(target, ClassInfo) or m.enum_members(target) is None or any("_missing_" in k.methods for k in m.mro(target)):
                    continue
                n += 1
                caught = [ast.unparse(h.type) if h.type is not None else "<bare>" for h in t.handlers]
                okh = any(h == "<bare>" or any(k in h for k in ("ValueError", "Exception", "BaseException")) for h in caught)
                r.check(okh, rid, f"{f.qualname}#catches-failed-coercion:{target.name}", f"`{ast.unparse(call)}` raises ValueError for a value outside the enum, the surrounding try "
                        f"catches only {caught}: the error escapes (e.g. from the repr() of a reply naming an unknown service id, evaluated in a log call of an exception handler)",
                        loc=f"{f.module.relpath}:{call.lineno}")
    return n


def ranges_validator_accepts_stored_form(m: Model, r: Report, rid: str) -> None:
    """`Ranges` options are stored (META.json, run_meta) as lists of ints and re-validated by the same before-validator when a run is re-created: the validator
    hands a list of ints through unchanged and unravels only text (finite-domain evaluation for text, list of text, list of ints, empty list)."""
    from sa import miniterp
    f = m.require_function("gallia.command.config._process_ranges")
    par = f.params()[0]
    oracle = lambda call, env: "UNRAVELLED" if ast.unparse(call.func).endswith("unravel") else NotImplemented
    bad = []
    for val, want in (("1-3 0x10", "UNRAVELLED"), (["1-3", "0x10"], "UNRAVELLED"), ([1, 2, 3, 16], [1, 2, 3, 16]), ([7], [7])):
        try:
            ret, env = miniterp.run_function(f.node, {par: val}, oracle)
            got = miniterp.eval_expr(ret.value, env, oracle) if ret is not None and ret.value is not None else None
        except miniterp.Raised as e:
            got = f"raises {ast.unparse(e.node.exc) if e.node.exc is not None else ''}"
        if got != want:
            bad.append(f"{val!r} -> {got!r}")
    r.check(not bad, rid, f"{f.qualname}#stored-form", f"{bad}: text is unravelled, a stored list of ints is handed through unchanged (otherwise a run cannot be re-created "
            "from its META.json / run_meta entry)", loc=f.loc)


def server_rules_index_guarded(m: Model, r: Report, rid: str) -> int:
    """Every rule of the virtual ECU stands on its own (any subset of the behaviour switches may be enabled): a rule that reads request.pdu[k], k >= 1, tests the
    length of the PDU itself instead of relying on an earlier rule having refused short requests."""
    from sa.util import path_condition
    srv = m.require_class("gallia.services.uds.server.UDSServer")
    n = 0
    for f in srv.methods.values():
        for sub in ast.walk(f.node):
            if not (isinstance(sub, ast.Subscript) and ast.unparse(sub.value) == "request.pdu" and not isinstance(sub.slice, ast.Slice)):
                continue
            k = m.try_fold(f.module, sub.slice)
            if not isinstance(k, int) or k < 1:
                continue
            n += 1
            guarded = any("len(request.pdu)" in ast.unparse(t) for t, _ in path_condition(f.node, sub))
            # a guard statement earlier in the function: `if len(request.pdu) < k + 1: return ...`
            early = any(isinstance(st, ast.If) and "len(request.pdu)" in ast.unparse(st.test) and st.lineno < sub.lineno and
                        any(isinstance(x, (ast.Return, ast.Raise)) for x in st.body) for st in ast.walk(f.node))
            r.check(guarded or early, rid, f"{f.qualname}#pdu[{k}]-guarded", f"request.pdu[{k}] is read without a length test in this rule: with the rule that refuses short requests "
                    "switched off (or for a one-byte request such as `10`) it raises IndexError, the transports log it and stop serving", loc=f"{f.module.relpath}:{sub.lineno}")
    return n


def session_change_only_into_offered(m: Model, r: Report, rid: str) -> None:
    """The built-in positive answer to DiagnosticSessionControl moves the server into the requested session; it is given only for a session the model offers
    (tested in the rule itself: the sub-function rule that usually refuses other sessions can be switched off), because every rule asserts that the active
    session is part of the model."""
    from sa.util import path_condition
    f = m.require_function("gallia.services.uds.server.UDSServer.default_response_if_session_change")
    rets = [n for n in ast.walk(f.node) if isinstance(n, ast.Return) and n.value is not None and "DiagnosticSessionControlResponse(" in ast.unparse(n.value)]
    if len(rets) != 1:
        raise AnalysisError(f"{f.qualname}: positive DiagnosticSessionControl answer not found")
    conds = [ast.unparse(t) for t, pol in path_condition(f.node, rets[0]) if pol]
    ok = any("supported_services" in c and " in " in c and "diagnostic_session_type" in c for c in conds)
    r.check(ok, rid, f"{f.qualname}#offered-session-only", f"the positive answer is given under {conds}: without a test that the requested session is one the model offers, "
            "`10 <unoffered session>` (sub-function rule switched off) moves the server into a session outside its model and every later request fails the "
            "'Virtual ECU in unsupported session' assertion", loc=f.loc)


def dddi_sources_accept_stored_form(m: Model, r: Report, rid: str) -> None:
    """The source definitions of `primitive uds dddi` are tuples in the model and JSON arrays (lists) in META.json / run_meta: the validator that parses the
    command-line text `a:b:c` hands both sequence forms through (finite-domain evaluation), otherwise the stored config cannot re-create the run."""
    from sa import miniterp
    f = m.require_function("gallia.commands.primitive.uds.dddi.parse_definitions")
    pv, pn = f.params()[0], f.params()[1]
    oracle = lambda call, env: int(miniterp.eval_expr(call.args[0], env, oracle), 0) if ast.unparse(call.func) in ("err_int", "auto_int") else NotImplemented
    bad = []
    for val, n, want in (("0x10:1:4", 3, (16, 1, 4)), ((16, 1, 4), 3, (16, 1, 4)), ([16, 1, 4], 3, (16, 1, 4)), ([16, 1], 2, (16, 1)), ([16, 1], 3, "raises"), ("1:2", 3, "raises")):
        try:
            ret, env = miniterp.run_function(f.node, {pv: val, pn: n}, oracle)
            got = miniterp.eval_expr(ret.value, env, oracle) if ret is not None and ret.value is not None else None
            got = tuple(got) if isinstance(got, (list, tuple)) else got
        except miniterp.Raised:
            got = "raises"
        if got != want:
            bad.append(f"{val!r} (expected length {n}) -> {got!r}")
    r.check(not bad, rid, f"{f.qualname}#stored-form", f"{bad}: a definition is accepted as text `a:b:c`, as tuple and as the list the JSON dump turns the tuple into; "
            "otherwise `script rerun` of a dddi run fails before the command is constructed", loc=f.loc)


def sub_function_split_rule(m: Model, r: Report, rid: str) -> None:
    """utils.sub_function_split(b) == (b & 0x7F, bit 7 of b set) for every byte value, decided by evaluating its return expression for 0..255."""
    from sa import miniterp
    f = m.require_function("gallia.services.uds.core.utils.sub_function_split")
    rets = [n for n in ast.walk(f.node) if isinstance(n, ast.Return)]
    par = f.params()[0] if f.params() else None
    if len(rets) != 1 or par is None or not isinstance(rets[0].value, ast.Tuple) or len(rets[0].value.elts) != 2:
        raise AnalysisError(f"{f.qualname}: expected a single `return <sub-function>, <suppress>`")
    body = [s for s in f.node.body if not (isinstance(s, ast.Expr) and isinstance(s.value, ast.Constant))]
    bad = []
    for b in range(256):
        try:
            ret, env = miniterp.run_function(f.node, {par: b})
            got = tuple(miniterp.eval_expr(e, env) for e in ret.value.elts) if ret is not None and isinstance(ret.value, ast.Tuple) and len(ret.value.elts) == 2 else "no pair"
        except miniterp.Raised:
            got = "raises"
        if isinstance(got, str) or (got[0], bool(got[1])) != (b & 0x7F, b >= 0x80):
            bad.append(f"{b:#04x}->{got}")
    r.check(not bad, rid, f"{f.qualname}#bit7", f"wrong split for byte values {bad[:4]}{' ...' if len(bad) > 4 else ''}: the request then fails its own round trip and "
            "is handled as a RawRequest (lenient matching, untyped server handling)", loc=f.loc, fact_ok="(b & 0x7F, b >= 0x80) for all 256 byte values")


def reconnect_unsafe_rule(m: Model, r: Report, rid: str) -> None:
    """UDSClient.reconnect_unsafe always asks the transport to reconnect (no shortcut on locally kept state: a connection lost by the peer
    leaves is_closed False), hands its timeout through unchanged (None selects the transport's own retry window) and adopts the result."""
    from sa.cfg import CFG
    from sa import transport_rules as tr
    ru = m.require_function("gallia.services.uds.core.client.UDSClient.reconnect_unsafe")
    g = CFG(ru.node)
    calls = [n for n in ast.walk(ru.node) if isinstance(n, ast.Call) and ast.unparse(n.func) == "self.transport.reconnect"]
    nodes = {n.id for n in g.nodes.values() if n.kind == "stmt" and isinstance(n.ast, ast.Assign) and ast.unparse(n.ast.targets[0]) == "self.transport"
             and any(c is x for c in calls for x in ast.walk(n.ast))}
    ok, path = g.must_pass(g.entry, nodes, {g.exit_return}) if nodes else (False, [])
    r.check(ok, rid, f"{ru.qualname}#always-reconnects",
            "reconnect_unsafe can return without `self.transport = await self.transport.reconnect(...)`: the retry is then sent on the dead connection"
            + (": " + " -> ".join(repr(g.nodes[p]) for p in path[-3:]) if path else ""), loc=ru.loc)
    tpar = ru.params()[1] if len(ru.params()) > 1 else "timeout"
    rebound = [ast.unparse(n)[:60] for n in ast.walk(ru.node) if (isinstance(n, ast.Assign) and any(ast.unparse(t) == tpar for t in n.targets)) or
               (isinstance(n, (ast.AugAssign, ast.AnnAssign, ast.NamedExpr)) and ast.unparse(n.target) == tpar)]
    r.check(not rebound, rid, f"{ru.qualname}#timeout-not-rebound", f"the timeout is replaced before it reaches the transport ({rebound}): None means 'one connection attempt, "
            "fail with that ConnectionError'; a substituted value turns a lost connection into a retry loop that ends in a bare TimeoutError without cause", loc=ru.loc)
    for c in calls:
        args = [ast.unparse(a) for a in c.args] + [f"{k.arg}={ast.unparse(k.value)}" for k in c.keywords]
        r.check(args in ([tpar], [f"timeout={tpar}"]), rid, f"{ru.qualname}#timeout-unchanged",
                f"the transport's reconnect() receives {args}: the caller's timeout must be passed on unchanged (None lets the transport choose its retry window, "
                "e.g. 10 s for DoIP)", loc=ru.loc)


def guarded_attribute_access(m: Model, r: Report, rid: str, fn, var: str, base_qual: str, extra_classes: list[str] = ()) -> int:
    """Every `var.<attr>` read in fn is safe for every concrete class var can be an instance of: the isinstance guards on the path
    are evaluated for each subclass of the base class, and wherever they let the class through, the class (its MRO: methods, properties,
    class attributes, attributes assigned in __init__) must provide the attribute.  Catches a guard written against a sibling class."""
    from sa.model import ClassInfo, walk_no_nested
    from sa.util import path_condition
    from sa import miniterp
    base = m.require_class(base_qual)
    classes = [c for c in m.subclasses(base) if not any(ast.unparse(d) == "abstractmethod" for f in c.methods.values() for d in f.node.decorator_list)]
    classes += [m.require_class(q) for q in extra_classes]

    def provides(c: ClassInfo, attr: str) -> bool:
        for k in m.mro(c):
            if attr in k.methods or attr in k.class_attrs or attr in k.class_annots:
                return True
            for f in k.methods.values():
                if any(isinstance(n, (ast.Assign, ast.AnnAssign)) and ast.unparse(n.targets[0] if isinstance(n, ast.Assign) else n.target) == f"self.{attr}" for n in ast.walk(f.node)):
                    return True
        return False

    n = 0
    stmts = [s for s in ast.walk(fn.node) if isinstance(s, ast.stmt) and not isinstance(s, (ast.If, ast.For, ast.While, ast.Try, ast.With, ast.FunctionDef, ast.AsyncFunctionDef))]
    for st in stmts:
        attrs = sorted({x.attr for x in ast.walk(st) if isinstance(x, ast.Attribute) and isinstance(x.value, ast.Name) and x.value.id == var and isinstance(x.ctx, ast.Load)})
        attrs = [a for a in attrs if not a.startswith("__")]
        if not attrs:
            continue
        conds = [(t, pol) for t, pol in path_condition(fn.node, st) if f"isinstance({var}," in ast.unparse(t).replace(" ", "").replace("isinstance(" + var + ",", f"isinstance({var},")]
        if not conds:
            continue
        for attr in attrs:
            n += 1
            bad = []
            for c in classes:
                def oracle(call, env, c=c):
                    if ast.unparse(call.func) == "isinstance" and len(call.args) == 2 and isinstance(call.args[0], ast.Name) and call.args[0].id == var:
                        tys = call.args[1].elts if isinstance(call.args[1], ast.Tuple) else ([call.args[1].left, call.args[1].right] if isinstance(call.args[1], ast.BinOp) else [call.args[1]])
                        for t in tys:
                            k = m.resolve_expr(fn.module, t, fn.cls)
                            if isinstance(k, ClassInfo) and m.is_subclass(c, k):
                                return True
                        return False
                    return NotImplemented
                try:
                    through = all(bool(miniterp.eval_expr(t, {var: c.name}, oracle)) == pol for t, pol in conds)
                except AnalysisError:
                    through = False          # a guard this rule cannot evaluate: no claim
                if through and not provides(c, attr):
                    bad.append(c.name)
            r.check(not bad, rid, f"{fn.qualname}#{var}.{attr}@{'&'.join(ast.unparse(t)[:40] for t, _ in conds)[:60]}",
                    f"`{var}.{attr}` is read under {[('' if p else 'not ') + ast.unparse(t) for t, p in conds]}, which lets {bad[:4]} through, but these classes have no "
                    f"attribute `{attr}`: AttributeError at run time (here: the row of that exchange is lost)", loc=f"{fn.module.relpath}:{st.lineno}")
    return n


def security_access_table(m: Model):
    """RandomUDSServer.security_access evaluated over the finite domain (request kind) x (pending seed: none / type 1 / type 3) x (requested type 2 / 4)
    x (key right / wrong): [(case, outcome, pending seed afterwards)]. Outcome: ('SecurityAccessResponse', ...), ('NRC', code), ('raise', name)."""
    from sa import miniterp
    sa = m.require_function("gallia.services.uds.server.RandomUDSServer.security_access")
    rpar = sa.params()[1] if len(sa.params()) > 1 else "request"
    rows = []
    for kind in ("RequestSeedRequest", "SendKeyRequest"):
        for last in (None, 1, 3):
            for rtype in ((1, 3) if kind == "RequestSeedRequest" else (2, 4)):
                for key in ((b"K",) if kind == "RequestSeedRequest" else (b"SEED", b"WRONG")):
                    pending = None if last is None else miniterp.Obj(security_access_type=last, security_seed=b"SEED")
                    env = {rpar: "REQ", f"{rpar}.service_id": 0x27, f"{rpar}.security_access_type": rtype, f"{rpar}.security_key": key, f"{rpar}.security_access_data_record": b"",
                           "self.state.last_sa_response": pending, "UDSErrorCodes.requestSequenceError": "requestSequenceError", "UDSErrorCodes.invalidKey": "invalidKey"}

                    def oracle(call, env_, kind=kind):
                        f = ast.unparse(call.func)
                        if f == "isinstance" and len(call.args) == 2 and ast.unparse(call.args[0]) == rpar:
                            names = [ast.unparse(x).split(".")[-1] for x in (call.args[1].elts if isinstance(call.args[1], ast.Tuple) else [call.args[1]])]
                            return kind in names or "_SecurityAccessRequest" in names
                        if f.split(".")[-1] == "SecurityAccessResponse":
                            return ("SecurityAccessResponse",) + tuple(miniterp.eval_expr(a, env_, oracle) for a in call.args)
                        if f.split(".")[-1] == "NegativeResponse":
                            return ("NRC", miniterp.eval_expr(call.args[1], env_, oracle)) if len(call.args) == 2 else NotImplemented
                        if f.endswith("random_payload") or f.endswith("randbytes") or f == "RNG":
                            return "SEED-BYTES"
                        return NotImplemented
                    try:
                        ret, env2 = miniterp.run_function(sa.node, env, oracle)
                        out = miniterp.eval_expr(ret.value, env2, oracle) if ret is not None and ret.value is not None else None
                    except miniterp.Raised as ex:
                        out, env2 = ("raise", ast.unparse(ex.node.exc).split("(")[0] if ex.node.exc is not None else "?"), env
                    rows.append(((kind, last, rtype, key), out, env2.get("self.state.last_sa_response")))
    return sa, rows
