"""ISO 14229-1 layout oracle (transcribed by hand from the standard; see DESIGN.md appendix A).

Keys are semantic: (service id, sub-function id or None).  Shape tokens:
  K     one constant byte (service id; for responses also a fixed sub-function)
  S     the sub-function byte (request: suppress bit | sub-function; response: sub-function) -> K or B
  B     one byte taken from the wire
  I2/I3 big-endian integer of that many bytes;  Isym = integer whose width is named by a format nibble
  R*    record reaching to the end of the PDU
  { }   one or more repetitions of the enclosed group
Each entry: list of admissible shapes, minimal ISO length, maximal ISO length (None = unbounded).
"""

REQ = {
    (0x10, None): (["K S"], 2, 2),
    (0x11, None): (["K S"], 2, 2),
    (0x27, "RequestSeed"): (["K S R*"], 2, None),
    (0x27, "SendKey"): (["K S R*"], 3, None),
    (0x28, None): (["K S B"], 3, 3),
    (0x3E, None): (["K S"], 2, 2),
    (0x85, None): (["K S R*"], 2, None),
    (0x22, None): (["K { I2 }"], 3, None),
    (0x23, None): (["K B Isym Isym"], 4, 32),
    (0x2C, 0x01): (["K S I2 { I2 B B }"], 8, None),
    (0x2C, 0x02): (["K S I2 B { Isym Isym }"], 7, None),
    (0x2C, 0x03): (["K S", "K S I2"], 2, 4),
    (0x2E, None): (["K I2 R*"], 4, None),
    (0x3D, None): (["K B Isym Isym R*"], 5, None),
    (0x14, None): (["K I3"], 4, 4),
    (0x2F, None): (["K I2 R*"], 4, None),
    (0x31, 0x01): (["K S I2 R*"], 4, None),
    (0x31, 0x02): (["K S I2 R*"], 4, None),
    (0x31, 0x03): (["K S I2 R*"], 4, None),
    (0x34, None): (["K B B Isym Isym"], 5, 33),
    (0x35, None): (["K B B Isym Isym"], 5, 33),
    (0x36, None): (["K B R*"], 2, None),
    (0x37, None): (["K R*"], 1, None),
    (0x19, 0x06): (["K S I3 B"], 6, 6),
}
for _sf in (0x01, 0x02, 0x0F, 0x11, 0x12, 0x13):
    REQ[(0x19, _sf)] = (["K S B"], 3, 3)
for _sf in (0x0A, 0x0B, 0x0C, 0x0D, 0x0E, 0x15):
    REQ[(0x19, _sf)] = (["K S"], 2, 2)

RESP = {
    (0x10, None): (["K S R*"], 2, None),
    (0x11, None): (["K S", "K S B"], 2, 3),
    (0x27, None): (["K S R*"], 2, None),
    (0x28, None): (["K S"], 2, 2),
    (0x3E, None): (["K S"], 2, 2),
    (0x85, None): (["K S"], 2, 2),
    (0x22, None): (["K I2 R*"], 4, None),
    (0x23, None): (["K R*"], 2, None),
    (0x2C, 0x01): (["K S I2"], 4, 4),
    (0x2C, 0x02): (["K S I2"], 4, 4),
    (0x2C, 0x03): (["K S", "K S I2"], 2, 4),
    (0x2E, None): (["K I2"], 3, 3),
    (0x3D, None): (["K B Isym Isym"], 4, 32),
    (0x14, None): (["K"], 1, 1),
    (0x2F, None): (["K I2 R*"], 4, None),
    (0x31, 0x01): (["K S I2 R*"], 4, None),
    (0x31, 0x02): (["K S I2 R*"], 4, None),
    (0x31, 0x03): (["K S I2 R*"], 4, None),
    (0x34, None): (["K B Isym"], 3, None),
    (0x35, None): (["K B Isym"], 3, None),
    (0x36, None): (["K B R*"], 2, None),
    (0x37, None): (["K R*"], 1, None),
    (0x19, 0x06): (["K S I3 B", "K S I3 B B R*"], 6, None),
    (0x7F, None): (["K B B"], 3, 3),
}
for _sf in (0x01, 0x07, 0x11, 0x12):
    RESP[(0x19, _sf)] = (["K S B B I2"], 6, 6)
for _sf in (0x02, 0x0F, 0x13, 0x0A, 0x15):
    RESP[(0x19, _sf)] = (["K S B { I3 B }"], 3, None)
for _sf in (0x0B, 0x0C, 0x0D, 0x0E):
    RESP[(0x19, _sf)] = (["K S B { I3 B }"], 3, 7)

# wire ranges (offset, width) after the service id that a positive response echoes from its request
# and that the matcher therefore has to compare ("primary identifier"); DDDI: sub-function and the dynamicallyDefinedDataIdentifier (absent on both sides for clear-all)
ECHO = {
    0x10: ["sf"], 0x11: ["sf"], 0x27: ["sf"], 0x28: ["sf"], 0x3E: [], 0x85: ["sf"],
    0x22: ["I2@1"], 0x2E: ["I2@1"], 0x2F: ["I2@1"], 0x31: ["sf", "I2@2"], 0x36: ["B@1"],
    0x3D: ["B@1", "Isym@2", "Isym@2+"], 0x19: ["sf"], 0x2C: ["sf", "I2@2"], 0x14: [], 0x23: [], 0x34: [], 0x35: [], 0x37: [],
}


def shape_matches(actual: list[str], allowed: list[str]) -> bool:
    for a in allowed:
        want = a.split()
        if len(want) != len(actual):
            continue
        ok = True
        for w, x in zip(want, actual):
            if w == x:
                continue
            if w == "S" and x in ("K", "B"):
                continue
            ok = False
            break
        if ok:
            return True
    return False


# --------------------------------------------------------------------------- named-field placement (ISO 14229-1 message tables)
# Where the standard puts each named parameter of a message, written in the provenance notation of the byte-layout analyser
# (bits<pdu[k].hi..lo> = bit range of PDU byte k, from_bytes(pdu[a:b]) = big-endian integer, i = index of a repeated group).
# The W∘R identity only proves that serialiser and parser agree with each other; two fields of equal width swapped in both
# directions still round-trip.  This table pins the field *names* to the ISO positions.  Transcribed from ISO 14229-1:2020
# tables (request / positive response message definitions) and confirmed against the pinned tree by reading.
_ALFID1 = {"memory_address": "from_bytes(pdu[2:bits<pdu[1].3..0>+2])",
           "memory_size": "from_bytes(pdu[bits<pdu[1].3..0>+2:bits<pdu[1].3..0>+bits<pdu[1].7..4>+2])"}
_UPDOWN = {"compression_method": "bits<pdu[1].7..4>", "encryption_method": "bits<pdu[1].3..0>",
           "memory_address": "from_bytes(pdu[3:bits<pdu[2].3..0>+3])",
           "memory_size": "from_bytes(pdu[bits<pdu[2].3..0>+3:bits<pdu[2].3..0>+bits<pdu[2].7..4>+3])"}
_NUM_DTC = {"dtc_status_availability_mask": "bits<pdu[2].7..0>", "dtc_format_identifier": "bits<pdu[3].7..0>", "dtc_count": "from_bytes(pdu[4:])"}
_DTC_LIST = {"dtc_status_availability_mask": "bits<pdu[2].7..0>",
             "dtc_and_status_record": "dict[from_bytes(pdu[i+3:i+6]): bits<pdu[i+6].7..0> for i=range(0,L-3,4)]"}
_ROUTINE = {"routine_identifier": "from_bytes(pdu[2:4])"}
_XFER = {"length_format_identifier": "bits<pdu[1].7..4>", "max_number_of_block_length": "from_bytes(pdu[2:])"}
FIELD_PLACEMENT: dict[str, dict[str, str]] = {
    # requests
    "CommunicationControlRequest": {"control_type": "bits<pdu[1].6..0>", "communication_type": "bits<pdu[2].7..0>"},
    "ReadMemoryByAddressRequest": _ALFID1,
    "WriteMemoryByAddressRequest": _ALFID1,
    "DefineByIdentifierRequest": {"dynamically_defined_data_identifier": "from_bytes(pdu[2:4])",
                                  "source_data_identifiers": "list[from_bytes(pdu[i:i+2]) for i=range(4,L,4)]",
                                  "positions_in_source_data_record": "list[bits<pdu[i+2].7..0> for i=range(4,L,4)]",
                                  "memory_sizes": "list[bits<pdu[i+3].7..0> for i=range(4,L,4)]"},
    "DefineByMemoryAddressRequest": {"dynamically_defined_data_identifier": "from_bytes(pdu[2:4])",
                                     "memory_addresses": "list[from_bytes(pdu[i:i+bits<pdu[4].3..0>]) for i=range(5,L,bits<pdu[4].3..0>+bits<pdu[4].7..4>)]",
                                     "memory_sizes": "list[from_bytes(pdu[i+bits<pdu[4].3..0>:i+bits<pdu[4].3..0>+bits<pdu[4].7..4>]) for i=range(5,L,bits<pdu[4].3..0>+bits<pdu[4].7..4>)]"},
    "WriteDataByIdentifierRequest": {"data_identifier": "from_bytes(pdu[1:3])"},
    "InputOutputControlByIdentifierRequest": {"data_identifier": "from_bytes(pdu[1:3])"},
    "ReportDTCExtDataRecordByDTCNumberRequest": {"dtc_mask_record": "from_bytes(pdu[2:5])", "dtc_ext_data_record_number": "bits<pdu[5].7..0>"},
    "StartRoutineRequest": _ROUTINE, "StopRoutineRequest": _ROUTINE, "RequestRoutineResultsRequest": _ROUTINE,
    "RequestDownloadRequest": _UPDOWN, "RequestUploadRequest": _UPDOWN,
    "TransferDataRequest": {"block_sequence_counter": "bits<pdu[1].7..0>"},
    # responses
    "ECUResetResponse": {"reset_type": "bits<pdu[1].7..0>", "power_down_time": "bits<pdu[2].7..0>"},
    "WriteDataByIdentifierResponse": {"data_identifier": "from_bytes(pdu[1:3])"},
    "WriteMemoryByAddressResponse": _ALFID1,
    "ReportNumberOfDTCByStatusMaskResponse": _NUM_DTC, "ReportNumberOfMirrorMemoryDTCByStatusMaskResponse": _NUM_DTC,
    "ReportNumberOfEmissionsRelatedOBDDTCByStatusMaskResponse": _NUM_DTC,
    "ReportDTCByStatusMaskResponse": _DTC_LIST, "ReportMirrorMemoryDTCByStatusMaskResponse": _DTC_LIST,
    "ReportEmissionsRelatedOBDDTCByStatusMaskResponse": _DTC_LIST, "ReportSupportedDTCResponse": _DTC_LIST,
    "ReportDTCWithPermanentStatusResponse": _DTC_LIST,
    "InputOutputControlByIdentifierResponse": {"data_identifier": "from_bytes(pdu[1:3])"},
    "StartRoutineResponse": _ROUTINE, "StopRoutineResponse": _ROUTINE, "RequestRoutineResultsResponse": _ROUTINE,
    "RequestDownloadResponse": _XFER, "RequestUploadResponse": _XFER,
    "TransferDataResponse": {"block_sequence_counter": "bits<pdu[1].7..0>"},
}


# --------------------------------------------------------------------------- negative response codes (ISO 14229-1:2020, Table A.1)
NRC: dict[str, int] = {
    "generalReject": 0x10, "serviceNotSupported": 0x11, "subFunctionNotSupported": 0x12, "incorrectMessageLengthOrInvalidFormat": 0x13,
    "responseTooLong": 0x14, "busyRepeatRequest": 0x21, "conditionsNotCorrect": 0x22, "requestSequenceError": 0x24,
    "noResponseFromSubnetComponent": 0x25, "failurePreventsExecutionOfRequestedAction": 0x26, "requestOutOfRange": 0x31,
    "securityAccessDenied": 0x33, "authenticationRequired": 0x34, "invalidKey": 0x35, "exceededNumberOfAttempts": 0x36,
    "requiredTimeDelayNotExpired": 0x37, "secureDataTransmissionRequired": 0x38, "secureDataTransmissionNotAllowed": 0x39,
    "secureDataVerificationFailed": 0x3A,
    "certificateVerificationFailedInvalidTimePeriod": 0x50, "certificateVerificationFailedInvalidSignature": 0x51,
    "certificateVerificationFailedInvalidChainOfTrust": 0x52, "certificateVerificationFailedInvalidType": 0x53,
    "certificateVerificationFailedInvalidFormat": 0x54, "certificateVerificationFailedInvalidContent": 0x55,
    "certificateVerificationFailedInvalidScope": 0x56, "certificateVerificationFailedInvalidCertificateRevoked": 0x57,
    "ownershipVerificationFailed": 0x58, "challengeCalculationFailed": 0x59, "settingAccessRightsFailed": 0x5A,
    "sessionKeyCreationOrDerivationFailed": 0x5B, "configurationDataUsageFailed": 0x5C, "deAuthenticationFailed": 0x5D,
    "uploadDownloadNotAccepted": 0x70, "transferDataSuspended": 0x71, "generalProgrammingFailure": 0x72, "wrongBlockSequenceCounter": 0x73,
    "requestCorrectlyReceivedResponsePending": 0x78, "subFunctionNotSupportedInActiveSession": 0x7E, "serviceNotSupportedInActiveSession": 0x7F,
    "rpmTooHigh": 0x81, "rpmTooLow": 0x82, "engineIsRunning": 0x83, "engineIsNotRunning": 0x84, "engineRunTimeTooLow": 0x85,
    "temperatureTooHigh": 0x86, "temperatureTooLow": 0x87, "vehicleSpeedTooHigh": 0x88, "vehicleSpeedTooLow": 0x89,
    "throttlePedalTooHigh": 0x8A, "throttlePedalTooLow": 0x8B, "transmissionRangeNotInNeutral": 0x8C, "transmissionRangeNotInGear": 0x8D,
    "brakeSwitchNotClosed": 0x8F, "shifterLeverNotInPark": 0x90, "torqueConverterClutchLocked": 0x91, "voltageTooHigh": 0x92,
    "voltageTooLow": 0x93, "resourceTemporarilyNotAvailable": 0x94,
}
# diagnostic service identifiers (ISO 14229-1:2020, Table 2 and clause 10..15)
SERVICE_IDS: dict[str, int] = {
    "DiagnosticSessionControl": 0x10, "EcuReset": 0x11, "ClearDiagnosticInformation": 0x14, "ReadDTCInformation": 0x19,
    "ReadDataByIdentifier": 0x22, "ReadMemoryByAddress": 0x23, "ReadScalingDataByIdentifier": 0x24, "SecurityAccess": 0x27,
    "CommunicationControl": 0x28, "Authentication": 0x29, "ReadDataByPeriodicIdentifier": 0x2A, "DynamicallyDefineDataIdentifier": 0x2C,
    "WriteDataByIdentifier": 0x2E, "InputOutputControlByIdentifier": 0x2F, "RoutineControl": 0x31, "RequestDownload": 0x34,
    "RequestUpload": 0x35, "TransferData": 0x36, "RequestTransferExit": 0x37, "RequestFileTransfer": 0x38, "WriteMemoryByAddress": 0x3D,
    "TesterPresent": 0x3E, "NegativeResponse": 0x7F, "AccessTimingParameter": 0x83, "SecuredDataTransmission": 0x84,
    "ControlDTCSetting": 0x85, "ResponseOnEvent": 0x86, "LinkControl": 0x87,
}


# ISO 14229-1 sub-function / parameter value tables (2013 / 2020 editions), keyed by the enum class name used in
# gallia.services.uds.core.constants.  Only names listed here are compared; members the oracle does not know are reported as a note.
SUBFUNCTION_TABLES = {
    "DiagnosticSessionControlSubFuncs": {"defaultSession": 0x01, "programmingSession": 0x02, "extendedDiagnosticSession": 0x03, "safetySystemDiagnosticSession": 0x04},
    "EcuResetSubFuncs": {"hardReset": 0x01, "keyOffOnReset": 0x02, "softReset": 0x03, "enableRapidPowerShutDown": 0x04, "disableRapidPowerShutDown": 0x05},
    "RoutineControlSubFuncs": {"startRoutine": 0x01, "stopRoutine": 0x02, "requestRoutineResults": 0x03},
    "CCSubFuncs": {"enableRxAndTx": 0x00, "enableRxAndDisableTx": 0x01, "disableRxAndEnableTx": 0x02, "disableRxAndTx": 0x03},
    "CDTCSSubFuncs": {"ON": 0x01, "OFF": 0x02},
    "InputOutputControlParameter": {"returnControlToECU": 0x00, "resetToDefault": 0x01, "freezeCurrentState": 0x02, "shortTermAdjustment": 0x03},
    "DTCFormatIdentifier": {"ISO_15031_6": 0x00, "ISO_14229_1": 0x01, "SAE_J1939_73": 0x02, "ISO_11992_4": 0x03},
    "DataIdentifier": {"ActiveDiagnosticSessionDataIdentifier": 0xF186},
    "DynamicallyDefineDataIdentifierSubFuncs": {"defineByIdentifier": 0x01, "defineByMemoryAddress": 0x02, "clearDynamicallyDefinedDataIdentifier": 0x03},
    "ReadDTCInformationSubFuncs": {
        "reportNumberOfDTCByStatusMask": 0x01, "reportDTCByStatusMask": 0x02, "reportDTCSnapshotIdentification": 0x03, "reportDTCSnapshotRecordByDTCNumber": 0x04,
        "reportDTCStoredDataByRecordNumber": 0x05, "reportDTCExtDataRecordByDTCNumber": 0x06, "reportNumberOfDTCBySeverityMaskRecord": 0x07,
        "reportDTCBySeverityMaskRecord": 0x08, "reportSeverityInformationOfDTC": 0x09, "reportSupportedDTC": 0x0A, "reportFirstTestFailedDTC": 0x0B,
        "reportFirstConfirmedDTC": 0x0C, "reportMostRecentTestFailedDTC": 0x0D, "reportMostRecentConfirmedDTC": 0x0E, "reportMirrorMemoryDTCByStatusMask": 0x0F,
        "reportMirrorMemoryDTCExtDataRecordByDTCNumber": 0x10, "reportNumberOfMirrorMemoryDTCByStatusMask": 0x11,
        "reportNumberOfEmissionsRelatedOBDDTCByStatusMask": 0x12, "reportEmissionsRelatedOBDDTCByStatusMask": 0x13, "reportDTCFaultDetectionCounter": 0x14,
        "reportDTCWithPermanentStatus": 0x15, "reportDTCExtDataRecordByRecordNumber": 0x16, "reportUserDefMemoryDTCByStatusMask": 0x17,
        "reportUserDefMemoryDTCSnapshotRecordByDTCNumber": 0x18, "reportUserDefMemoryDTCExtDataRecordByDTCNumber": 0x19,
        "reportDTCExtendedDataRecordIdentification": 0x1A, "reportWWHOBDDTCByMaskRecord": 0x42, "reportWWHOBDDTCWithPermanentStatus": 0x55,
        "reportDTCInformationByDTCReadinessGroupIdentifier": 0x56,
    },
}


# Value sets a decoding enum must cover completely: a reply carrying a defined value that the enum does not list is refused as malformed.
# DTCFormatIdentifier (ISO 14229-1:2013 / 2020, annex D): 0x00 SAE_J2012-DA_DTCFormat_00, 0x01 ISO_14229-1_DTCFormat, 0x02 SAE_J1939-73_DTCFormat,
# 0x03 ISO_11992-4_DTCFormat, 0x04 SAE_J2012-DA_DTCFormat_04.
VALUE_COVERAGE = {"DTCFormatIdentifier": {0x00: "SAE_J2012-DA_DTCFormat_00", 0x01: "ISO_14229-1_DTCFormat", 0x02: "SAE_J1939-73_DTCFormat", 0x03: "ISO_11992-4_DTCFormat",
                                          0x04: "SAE_J2012-DA_DTCFormat_04"}}


# Services whose request carries a sub-function byte (bit 7 = suppressPosRspMsgIndicationBit) according to ISO 14229-1, by UDSIsoServices member name
SUBFUNCTION_SERVICES = {"DiagnosticSessionControl", "EcuReset", "SecurityAccess", "CommunicationControl", "Authentication", "TesterPresent", "AccessTimingParameter",
                        "ControlDTCSetting", "ResponseOnEvent", "LinkControl", "ReadDTCInformation", "DynamicallyDefineDataIdentifier", "RoutineControl"}
