"""ISO 14229-1 layout oracle (transcribed by hand from the standard; see DESIGN.md appendix A).

Keys are semantic: (service id, sub-function id or None).  Shape tokens:
  K     one constant byte (service id; for responses also a fixed sub-function)
  S     the sub-function byte (request: suppress bit | sub-function; response: sub-function) -> K or B
  B     one byte taken from the wire
  I2/I3 big-endian integer of that many bytes;  Isym = integer whose width is named by a format nibble
  R*    record reaching to the end of the PDU
  { }   one or more repetitions of the enclosed group
Each entry: list of admissible shapes, minimal ISO length, maximal ISO length (None = unbounded).
"""

REQ = {
    (0x10, None): (["K S"], 2, 2),
    (0x11, None): (["K S"], 2, 2),
    (0x27, "RequestSeed"): (["K S R*"], 2, None),
    (0x27, "SendKey"): (["K S R*"], 3, None),
    (0x28, None): (["K S B"], 3, 3),
    (0x3E, None): (["K S"], 2, 2),
    (0x85, None): (["K S R*"], 2, None),
    (0x22, None): (["K { I2 }"], 3, None),
    (0x23, None): (["K B Isym Isym"], 4, 32),
    (0x2C, 0x01): (["K S I2 { I2 B B }"], 8, None),
    (0x2C, 0x02): (["K S I2 B { Isym Isym }"], 7, None),
    (0x2C, 0x03): (["K S", "K S I2"], 2, 4),
    (0x2E, None): (["K I2 R*"], 4, None),
    (0x3D, None): (["K B Isym Isym R*"], 5, None),
    (0x14, None): (["K I3"], 4, 4),
    (0x2F, None): (["K I2 R*"], 4, None),
    (0x31, 0x01): (["K S I2 R*"], 4, None),
    (0x31, 0x02): (["K S I2 R*"], 4, None),
    (0x31, 0x03): (["K S I2 R*"], 4, None),
    (0x34, None): (["K B B Isym Isym"], 5, 33),
    (0x35, None): (["K B B Isym Isym"], 5, 33),
    (0x36, None): (["K B R*"], 2, None),
    (0x37, None): (["K R*"], 1, None),
    (0x19, 0x06): (["K S I3 B"], 6, 6),
}
for _sf in (0x01, 0x02, 0x0F, 0x11, 0x12, 0x13):
    REQ[(0x19, _sf)] = (["K S B"], 3, 3)
for _sf in (0x0A, 0x0B, 0x0C, 0x0D, 0x0E, 0x15):
    REQ[(0x19, _sf)] = (["K S"], 2, 2)

RESP = {
    (0x10, None): (["K S R*"], 2, None),
    (0x11, None): (["K S", "K S B"], 2, 3),
    (0x27, None): (["K S R*"], 2, None),
    (0x28, None): (["K S"], 2, 2),
    (0x3E, None): (["K S"], 2, 2),
    (0x85, None): (["K S"], 2, 2),
    (0x22, None): (["K I2 R*"], 4, None),
    (0x23, None): (["K R*"], 2, None),
    (0x2C, 0x01): (["K S I2"], 4, 4),
    (0x2C, 0x02): (["K S I2"], 4, 4),
    (0x2C, 0x03): (["K S", "K S I2"], 2, 4),
    (0x2E, None): (["K I2"], 3, 3),
    (0x3D, None): (["K B Isym Isym"], 4, 32),
    (0x14, None): (["K"], 1, 1),
    (0x2F, None): (["K I2 R*"], 4, None),
    (0x31, 0x01): (["K S I2 R*"], 4, None),
    (0x31, 0x02): (["K S I2 R*"], 4, None),
    (0x31, 0x03): (["K S I2 R*"], 4, None),
    (0x34, None): (["K B Isym"], 3, None),
    (0x35, None): (["K B Isym"], 3, None),
    (0x36, None): (["K B R*"], 2, None),
    (0x37, None): (["K R*"], 1, None),
    (0x19, 0x06): (["K S I3 B", "K S I3 B B R*"], 6, None),
    (0x7F, None): (["K B B"], 3, 3),
}
for _sf in (0x01, 0x07, 0x11, 0x12):
    RESP[(0x19, _sf)] = (["K S B B I2"], 6, 6)
for _sf in (0x02, 0x0F, 0x13, 0x0A, 0x15):
    RESP[(0x19, _sf)] = (["K S B { I3 B }"], 3, None)
for _sf in (0x0B, 0x0C, 0x0D, 0x0E):
    RESP[(0x19, _sf)] = (["K S B { I3 B }"], 3, 7)

# wire ranges (offset, width) after the service id that a positive response echoes from its request
# and that the matcher therefore has to compare ("primary identifier"); DDDI: sub-function only (DDDID advisory)
ECHO = {
    0x10: ["sf"], 0x11: ["sf"], 0x27: ["sf"], 0x28: ["sf"], 0x3E: [], 0x85: ["sf"],
    0x22: ["I2@1"], 0x2E: ["I2@1"], 0x2F: ["I2@1"], 0x31: ["sf", "I2@2"], 0x36: ["B@1"],
    0x3D: ["B@1", "Isym@2", "Isym@2+"], 0x19: ["sf"], 0x2C: ["sf"], 0x14: [], 0x23: [], 0x34: [], 0x35: [], 0x37: [],
}


def shape_matches(actual: list[str], allowed: list[str]) -> bool:
    for a in allowed:
        want = a.split()
        if len(want) != len(actual):
            continue
        ok = True
        for w, x in zip(want, actual):
            if w == x:
                continue
            if w == "S" and x in ("K", "B"):
                continue
            ok = False
            break
        if ok:
            return True
    return False
