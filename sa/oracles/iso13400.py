"""ISO 13400-2 (DoIP) value tables, keyed by the enum class names of gallia.transports.doip.  Only the names listed here are compared
(RESERVED / ManufacturerSpecific are gallia's own catch-all members and are not part of the standard's tables).  HSFZ control words
(BMW HSFZ, as used by gallia.transports.hsfz) are listed for the members the transport logic depends on."""

DOIP_TABLES = {
    "ProtocolVersions": {"ISO_13400_2_2010": 0x01, "ISO_13400_2_2012": 0x02, "ISO_13400_2_2019": 0x03},
    "RoutingActivationRequestTypes": {"Default": 0x00, "WWH_OBD": 0x01, "CentralSecurity": 0xE0},
    "RoutingActivationResponseCodes": {
        "UnknownSourceAddress": 0x00, "NoResources": 0x01, "InvalidConnectionEntry": 0x02, "AlreadyActive": 0x03, "AuthenticationMissing": 0x04,
        "ConfirmationRejected": 0x05, "UnsupportedActivationType": 0x06, "TLSRequired": 0x07, "Success": 0x10, "SuccessConfirmationRequired": 0x11,
    },
    "PayloadTypes": {
        "GenericDoIPHeaderNACK": 0x0000, "VehicleIdentificationRequestMessage": 0x0001, "VehicleIdentificationRequestMessageWithEID": 0x0002,
        "VehicleIdentificationRequestMessageWithVIN": 0x0003, "VehicleAnnouncementMessage": 0x0004, "RoutingActivationRequest": 0x0005,
        "RoutingActivationResponse": 0x0006, "AliveCheckRequest": 0x0007, "AliveCheckResponse": 0x0008, "DoIPEntityStatusRequest": 0x4001,
        "DoIPEntityStatusResponse": 0x4002, "DiagnosticPowerModeInformationRequest": 0x4003, "DiagnosticPowerModeInformationResponse": 0x4004,
        "DiagnosticMessage": 0x8001, "DiagnosticMessagePositiveAcknowledgement": 0x8002, "DiagnosticMessageNegativeAcknowledgement": 0x8003,
    },
    "DiagnosticMessagePositiveAckCodes": {"Success": 0x00},
    "DiagnosticMessageNegativeAckCodes": {
        "InvalidSourceAddress": 0x02, "UnknownTargetAddress": 0x03, "DiagnosticMessageTooLarge": 0x04, "OutOfMemory": 0x05, "TargetUnreachable": 0x06,
        "UnknownNetwork": 0x07, "TransportProtocolError": 0x08,
    },
    "GenericDoIPHeaderNACKCodes": {"IncorrectPatternFormat": 0x00, "UnknownPayloadType": 0x01, "MessageTooLarge": 0x02, "OutOfMemory": 0x03, "InvalidPayloadLength": 0x04},
    # timing parameters in milliseconds (ISO 13400-2 table 'DoIP timing and communication parameters')
    "TimingAndCommunicationParameters": {
        "CtrlTimeout": 2000, "AnnounceWait": 500, "AnnounceInterval": 500, "AnnounceNum": 3, "DiagnosticMessageMessageAckTimeout": 2000,
        "RoutingActivationResponseTimeout": 2000, "DiagnosticMessageMessageTimeout": 2000, "TCPGeneralInactivityTimeout": 5000,
        "TCPInitialInactivityTimeout": 2000, "TCPAliveCheckTimeout": 500, "ProcessingTimeout": 2000, "VehicleDiscoveryTimeout": 5000,
    },
}

HSFZ_TABLES = {
    "HSFZStatus": {
        "Data": 0x01, "Ack": 0x02, "Klemme15": 0x10, "Vin": 0x11, "AliveCheck": 0x12, "StatusDataInquiry": 0x13, "IncorrectTesterAddressError": 0x40,
        "IncorrectControlWordError": 0x41, "IncorrectFormatError": 0x42, "IncorrectDestinationAddressError": 0x43, "MessageTooLarge": 0x44,
        "ApplicationNotReady": 0x45, "OutOfMemory": 0xFF,
    },
}


# Payload lengths ISO 13400-2 allows for payload types with optional trailing fields: decoder class -> lengths that must decode.
# Routing activation response: SA(2) TA(2) code(1) reserved(4) [OEM specific(4)]; entity status response: NT(1) MCTS(1) NCTS(1) [MDS(4)].
DOIP_PAYLOAD_LENGTHS = {"RoutingActivationResponse": (9, 13), "DoIPEntityStatusResponse": (3, 7)}
