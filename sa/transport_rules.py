"""Rules shared by the DoIP (C06), HSFZ (C07) and connection-loss (C08) checks."""
from __future__ import annotations

import ast
import struct
from typing import Any

from .callgraph import CallGraph
from .cfg import CFG
from .locks import LockModel
from .model import AnalysisError, ClassInfo, FuncInfo, Model, walk_no_nested
from .report import Report


def fmt_of(m: Model, fn: FuncInfo, call: ast.Call) -> str | None:
    if call.args:
        v = m.try_fold(fn.module, call.args[0])
        return v if isinstance(v, str) else None
    return None


def struct_calls(fn: FuncInfo, name: str) -> list[ast.Call]:
    return [n for n in ast.walk(fn.node) if isinstance(n, ast.Call) and ast.unparse(n.func) in (f"struct.{name}", name)]


def codec_agreement(m: Model, r: Report, rid: str, cls: ClassInfo) -> None:
    """pack/unpack of one dataclass: same format, same field order, arity == number of format codes."""
    pk, up = cls.methods.get("pack"), cls.methods.get("unpack")
    fields = [k for k in cls.class_annots]
    for c in m.mro(cls)[1:]:
        fields = [k for k in c.class_annots if k not in fields] + fields
    if pk is not None:
        calls = struct_calls(pk, "pack")
        if len(calls) != 1:
            raise AnalysisError(f"{pk.qualname}: expected one struct.pack call")
        fmt = fmt_of(m, pk, calls[0])
        n_codes = len(struct.unpack(fmt, bytes(struct.calcsize(fmt)))) if fmt else -1
        args = [ast.unparse(a) for a in calls[0].args[1:]]
        r.check(fmt is not None and n_codes == len(args), rid, f"{pk.qualname}#arity",
                f"struct.pack({fmt!r}) takes {n_codes} values but {len(args)} are given", loc=pk.loc)
        r.check(fmt is not None and fmt[0] in "!>", rid, f"{pk.qualname}#byte-order", f"format {fmt!r} is not network byte order", loc=pk.loc)
    if up is not None:
        calls = struct_calls(up, "unpack")
        if len(calls) == 0:
            raise AnalysisError(f"{up.qualname}: expected a struct.unpack call")
        if len(calls) > 1:
            # several wire variants (discovery messages): check each call's own arity
            for i, c in enumerate(calls):
                f_ = fmt_of(m, up, c)
                tg = next((n.targets[0] for n in ast.walk(up.node) if isinstance(n, ast.Assign) and n.value is c), None)
                nn = len(tg.elts) if isinstance(tg, ast.Tuple) else 1
                nc = len(struct.unpack(f_, bytes(struct.calcsize(f_)))) if f_ else -1
                r.check(f_ is not None and nc == nn and f_[0] in "!>", rid, f"{up.qualname}#arity[{i}]",
                        f"struct.unpack({f_!r}) yields {nc} values, {nn} targets", loc=up.loc)
            return
        ufmt = fmt_of(m, up, calls[0])
        tgt = None
        for n in ast.walk(up.node):
            if isinstance(n, ast.Assign) and n.value is calls[0]:
                tgt = n.targets[0]
        names = [ast.unparse(e) for e in tgt.elts] if isinstance(tgt, ast.Tuple) else ([ast.unparse(tgt)] if tgt is not None else [])
        n_codes = len(struct.unpack(ufmt, bytes(struct.calcsize(ufmt)))) if ufmt else -1
        r.check(ufmt is not None and n_codes == len(names), rid, f"{up.qualname}#arity",
                f"struct.unpack({ufmt!r}) yields {n_codes} values, {len(names)} targets", loc=up.loc)
        # slice width of the unpacked prefix
        data_arg = calls[0].args[1]
        if isinstance(data_arg, ast.Subscript) and isinstance(data_arg.slice, ast.Slice) and data_arg.slice.upper is not None:
            w = m.try_fold(up.module, data_arg.slice.upper)
            r.check(w == struct.calcsize(ufmt), rid, f"{up.qualname}#prefix-width",
                    f"unpacks data[:{w}] with format {ufmt!r} of size {struct.calcsize(ufmt)}", loc=up.loc)
            rest = [n for n in ast.walk(up.node) if isinstance(n, ast.Subscript) and isinstance(n.slice, ast.Slice)
                    and n.slice.lower is not None and n.slice.upper is None]
            lows = [m.try_fold(up.module, x.slice.lower) for x in rest]
            # (no rest slice at all: the decoder ignores an optional trailing field)
            r.check(lows in ([struct.calcsize(ufmt)], []), rid, f"{up.qualname}#rest-offset",
                    f"the variable part starts at {lows}, the fixed part is {struct.calcsize(ufmt)} bytes", loc=up.loc)
        # constructor argument order
        rets = [n.value for n in ast.walk(up.node) if isinstance(n, ast.Return) and isinstance(n.value, ast.Call) and ast.unparse(n.value.func) == "cls"]
        if len(rets) == 1:
            ctor_args = [ast.unparse(a) for a in rets[0].args]
            order_ok = True
            pos = -1
            for a in ctor_args:
                base = a
                for nm in names:
                    if nm in a:
                        base = nm
                        break
                if base in names:
                    i = names.index(base)
                    if i < pos:
                        order_ok = False
                    pos = i
            r.check(len(ctor_args) <= len(fields) and order_ok, rid, f"{up.qualname}#field-order",
                    f"cls({', '.join(ctor_args)}) vs unpack order {names} and fields {fields}", loc=up.loc)
        if pk is not None:
            pfmt = fmt_of(m, pk, struct_calls(pk, "pack")[0])
            r.check(pfmt == ufmt, rid, f"{cls.qualname}#same-format", f"pack uses {pfmt!r}, unpack {ufmt!r}", loc=cls.loc)
            pargs = [ast.unparse(a) for a in struct_calls(pk, "pack")[0].args[1:]]
            pfields = [a.replace("self.", "").split(" ")[0] for a in pargs]
            # every packed field is a dataclass field, in declaration order (derived values like `x ^ 0xFF` repeat a field)
            idx = [fields.index(f) for f in pfields if f in fields]
            r.check(idx == sorted(idx) and all(f in fields for f in pfields), rid, f"{pk.qualname}#field-order",
                    f"packs {pargs}; dataclass fields are {fields}", loc=pk.loc)


def consumption(m: Model, r: Report, rid: str, fn: FuncInfo, header_size: int) -> CFG:
    """Stream framing: only readexactly() on the reader; header read first; every return passes a payload read."""
    reads = [n for n in ast.walk(fn.node) if isinstance(n, ast.Call) and isinstance(n.func, ast.Attribute)
             and ast.unparse(n.func.value) == "self.reader"]
    kinds = sorted({n.func.attr for n in reads})
    r.check(kinds == ["readexactly"], rid, f"{fn.qualname}#exact-reads",
            f"stream reads use {kinds}: read()/readline() may return fewer bytes than the frame announces when TCP splits it, "
            "which desynchronises every later frame", loc=fn.loc)
    first = min(reads, key=lambda n: (n.lineno, n.col_offset)) if reads else None
    sz = m.try_fold(fn.module, first.args[0]) if first is not None and first.args else None
    r.check(sz == header_size, rid, f"{fn.qualname}#header-size", f"the first read takes {sz} bytes, the header has {header_size}", loc=fn.loc)
    return CFG(fn.node)


def wait_for_cycle(m: Model, r: Report, rid: str, cg: CallGraph, lm: LockModel, conn: ClassInfo, worker_name: str, queue_attr: str) -> None:
    """The sole producer task of the queue must not block on a lock some consumer holds while awaiting queue.get()."""
    worker = conn.methods.get(worker_name)
    if worker is None:
        raise AnalysisError(f"{conn.qualname}.{worker_name} vanished")
    if not any(any(t.qualname == worker.qualname for t in cs.targets) for cs in cg.task_roots):
        raise AnalysisError(f"{worker.qualname} is no longer started with create_task")
    q = lm.key_for(conn, queue_attr, lm.queues)
    if q is None:
        raise AnalysisError(f"{conn.qualname}.{queue_attr} queue vanished")
    # producers
    producers = set()
    for f in conn.methods.values():
        for k, n in lm.queue_ops(f, "put"):
            if k == q:
                producers.add(f.qualname)
    worker_reach = cg.reachable([worker])
    primary = [p for p in producers if p in worker_reach]
    r.check(worker.qualname in producers or bool(primary), rid, f"{worker.qualname}#produces",
            f"the reader task no longer feeds {queue_attr} (producers: {sorted(producers)})", loc=worker.loc)
    may = lm.may_acquire(worker)
    # consumers: get() sites and the locks that may be held there
    n_sites = 0
    for f in conn.methods.values():
        for k, n in lm.queue_ops(f, "get"):
            if k != q:
                continue
            n_sites += 1
            held = set(lm.held_syntactic(f, n))
            chains: dict[Any, list[str]] = {}
            for lk in lm.locks:
                mh = lm.may_hold(lk)
                if f.qualname in mh:
                    held.add(lk)
                    chains[lk] = mh[f.qualname]
            clash = [lk for lk in held if lk in may]
            r.check(not clash, rid, f"{f.qualname}#get-while-holding",
                    "wait-for cycle: " + "; ".join(
                        f"a consumer awaits {queue_attr}.get() holding {lk[1]} ({' -> '.join(chains.get(lk, [f.qualname]))}) while the reader task, "
                        f"the only producer, blocks on {lk[1]} via {' -> '.join(may[lk])}" for lk in clash) +
                    ": alive checks are not answered (and nothing is delivered) until the consumer times out",
                    loc=f"{f.module.relpath}:{n.lineno}", fact_ok=f"held {sorted(l[1] for l in held)}; reader acquires {sorted(l[1] for l in may)}")
    if n_sites < 1:
        raise AnalysisError(f"no {queue_attr}.get() site in {conn.qualname}")


def address_filter(r: Report, rid: str, fn: FuncInfo, atoms_want: set[str], m: Model | None = None) -> None:
    """The skip-condition over the two address fields must be the disjunction of both inequalities - in any spelling: `a != x or b != y`,
    `not (a == x and b == y)`, a named condition tested afterwards (compared in conjunctive normal form after resolving named conditions)."""
    from sa.util import cnf, subst_locals
    node = subst_locals(fn.node, fn.node, conditions=True)

    def txt(e: ast.AST) -> str:
        return (m.mtext(fn, e) if m is not None else ast.unparse(e)).replace(" ", "")
    want_expr = ast.parse(" or ".join(f"({a})" for a in sorted(atoms_want)), mode="eval").body
    if m is not None:
        want_expr = ast.parse(m.mpat(fn, ast.unparse(want_expr)), mode="eval").body
    want = {frozenset((t.replace(" ", ""), p) for t, p in c) for c in (cnf(want_expr, True) or [])}
    found = False
    partial = []
    for n in ast.walk(node):
        if not (isinstance(n, ast.If) and any(isinstance(s, ast.Continue) for s in ast.walk(n))):
            continue
        if m is not None:
            t_expr = ast.parse(m.mtext(fn, n.test), mode="eval").body
        else:
            t_expr = n.test
        got = cnf(t_expr, True)
        if got is None:
            continue
        got_n = {frozenset((t.replace(" ", ""), p) for t, p in c) for c in got}
        if got_n == want:
            found = True
            r.ok(rid, f"{fn.qualname}#address-filter", f"frames are skipped iff {ast.unparse(n.test)}")
        elif any(lit in c for c in got_n for w in want for lit in w) and got_n != want:
            partial.append(ast.unparse(n.test))
    if not found and partial:
        r.violation(rid, f"{fn.qualname}#address-filter",
                    f"frames are skipped only if {partial}: a frame with one foreign address is taken as ours (expected: skipped if {sorted(atoms_want)} - either one)", fn.loc)
    elif not found:
        r.violation(rid, f"{fn.qualname}#address-filter",
                    f"the address filter with atoms {sorted(atoms_want)} was not found: frames of other address pairs are not skipped", fn.loc)


def requeue_on_cancellation(r: Report, rid: str, fn: FuncInfo, queue_text: str) -> None:
    """The wait for the next frame can be cancelled (the caller's timeout: asyncio.wait_for cancels the awaited read); frames that were set aside before must
    survive that exit as well: the receive loop is enclosed in a try whose finally (or BaseException / CancelledError handler) puts them back into the queue."""
    loops = [n for n in fn.node.body if isinstance(n, ast.While)] + [n for t in fn.node.body if isinstance(t, ast.Try) for n in t.body if isinstance(n, ast.While)]
    recv = [l for l in loops if any(isinstance(x, ast.Await) for x in ast.walk(l)) and any(isinstance(x, ast.Call) and isinstance(x.func, ast.Attribute) and x.func.attr == "append" for x in ast.walk(l))]
    if len(recv) != 1:
        raise AnalysisError(f"{fn.qualname}: receive loop that sets frames aside not found")

    def puts_back(stmts: list[ast.stmt]) -> bool:
        return any(queue_text in ast.unparse(s) and (".put(" in ast.unparse(s) or ".put_nowait(" in ast.unparse(s)) for s in stmts)
    protected = False
    for t in ast.walk(fn.node):
        if isinstance(t, ast.Try) and any(recv[0] is x for b in t.body for x in ast.walk(b)):
            if puts_back(t.finalbody) or any((h.type is None or any(k in ast.unparse(h.type) for k in ("BaseException", "CancelledError"))) and puts_back(h.body) for h in t.handlers):
                protected = True
    r.check(protected, rid, f"{fn.qualname}#requeue-on-cancellation", "frames set aside while waiting are put back only on the normal exits of the receive loop: when the caller's "
            "timeout cancels the wait (the connection stays open) they are dropped with the local list and no later read delivers them", loc=fn.loc)


def requeue_before_exit(r: Report, rid: str, fn: FuncInfo, queue_text: str, extra_exits: tuple[str, ...] = ()) -> None:
    """Every normal return (and the listed raises) passes the loop that puts skipped frames back into the queue."""
    g = CFG(fn.node)
    req = {n.id for n in g.nodes.values() if n.kind == "loop" and isinstance(n.ast, (ast.For, ast.AsyncFor))
           and any(queue_text in ast.unparse(s) and (".put(" in ast.unparse(s) or ".put_nowait(" in ast.unparse(s)) for s in n.ast.body)}
    if not req:
        r.violation(rid, f"{fn.qualname}#requeue", f"skipped frames are never put back into {queue_text}: they are lost for later reads", fn.loc)
        return
    # only exits reached after at least one frame was skipped matter; all returns must pass the requeue loop anyway
    dst = {n.id for n in g.nodes.values() if n.kind == "return"}
    for n in g.nodes.values():
        if n.kind == "raise" and n.ast is not None and any(x in ast.unparse(n.ast) for x in extra_exits):
            dst.add(n.id)
    skip_sites = [n.id for n in g.nodes.values() if n.kind == "stmt" and n.ast is not None and ".append(" in ast.unparse(n.ast)]
    ok = True
    witness: list[int] = []
    # conditions over attributes that the function never assigns are constant during one call: explore each truth value separately
    assigned = {ast.unparse(t) for n in ast.walk(fn.node) if isinstance(n, (ast.Assign, ast.AugAssign, ast.AnnAssign))
                for t in (n.targets if isinstance(n, ast.Assign) else [n.target])}
    inv = [n for n in g.nodes.values() if n.kind == "cond" and isinstance(n.ast, ast.Attribute) and ast.unparse(n.ast).startswith("self.")
           and ast.unparse(n.ast) not in assigned and len([b for b, k in g.succ[n.id] if k == "n"]) == 2]
    keys = sorted({ast.unparse(n.ast) for n in inv})
    import itertools
    for combo in itertools.product([True, False], repeat=len(keys)):
        truth = dict(zip(keys, combo))
        saved = {}
        for n in inv:
            nb = [(b, k) for b, k in g.succ[n.id] if k == "n"]
            keep = nb[0] if truth[ast.unparse(n.ast)] else nb[1]
            saved[n.id] = list(g.succ[n.id])
            g.succ[n.id] = [keep] + [(b, k) for b, k in saved[n.id] if k != "n"]
        live = g.reachable_from(g.entry)
        for s in [x for x in (skip_sites or [g.entry]) if x in live]:
            o, p = g.must_pass(s, req, dst)
            if not o:
                ok, witness = False, p
        for nid, sv in saved.items():
            g.succ[nid] = sv
    r.check(ok, rid, f"{fn.qualname}#requeue", "an exit is reachable after skipping frames without re-queueing them: "
            + " -> ".join(repr(g.nodes[p]) for p in witness[-4:]), loc=fn.loc)
    # every skip (`continue` of the receive loop) must first remember the frame in the list that is re-queued; the loop is only left by return/raise
    loops = [n for n in fn.node.body if isinstance(n, ast.While)]       # the receive loop is the top-level one (a nested drain loop may exist)
    if len(loops) != 1:
        raise AnalysisError(f"{fn.qualname}: expected exactly one receive loop")
    lists = set()
    for l in g.nodes.values():
        if l.id in req:
            it = l.ast.iter
            lists |= {ast.unparse(it)} | ({ast.unparse(it.left), ast.unparse(it.right)} if isinstance(it, ast.BinOp) and isinstance(it.op, ast.Add) else set())
    for c in [n for n in ast.walk(loops[0]) if isinstance(n, ast.Continue)]:
        blk = None
        for cand in ast.walk(loops[0]):
            if isinstance(cand, ast.If) and c in cand.body:
                blk = cand
        remembered = blk is not None and any(isinstance(s_, ast.Expr) and isinstance(s_.value, ast.Call) and isinstance(s_.value.func, ast.Attribute)
                                             and s_.value.func.attr == "append" and ast.unparse(s_.value.func.value) in lists for s_ in blk.body)
        r.check(remembered, rid, f"{fn.qualname}#skip-remembers@{ast.unparse(blk.test)[:50] if blk is not None else c.lineno}",
                "a frame is skipped without being stored for re-queueing: it is lost for later reads", loc=f"{fn.module.relpath}:{c.lineno}")
    inner_loops = [x for x in ast.walk(loops[0]) if isinstance(x, (ast.While, ast.For)) and x is not loops[0]]
    brk = [n for n in ast.walk(loops[0]) if isinstance(n, ast.Break) and not any(n is y for il in inner_loops for y in ast.walk(il))]
    r.check(not brk, rid, f"{fn.qualname}#no-break", "the receive loop must only be left by return or raise (a break returns as if the awaited frame had arrived)", loc=fn.loc)


def reader_loop_total(r: Report, rid: str, fn: FuncInfo, sinks: tuple[str, ...]) -> None:
    """Reader task: every iteration either hands the frame to a sink (queue put / alive reply) or skips an explicitly unusable frame;
    the loop is never left except by an exception."""
    loops = [n for n in walk_no_nested(fn.node) if isinstance(n, ast.While)]
    if len(loops) != 1:
        raise AnalysisError(f"{fn.qualname}: reader loop not found")
    L_ = loops[0]
    r.check(not [n for n in ast.walk(L_) if isinstance(n, (ast.Break, ast.Return))], rid, f"{fn.qualname}#runs-until-eof",
            "the reader loop must not be left by break/return: the task would stop delivering frames and answering alive checks while the connection is open", loc=fn.loc)
    g = CFG(fn.node)
    heads = [n.id for n in g.nodes.values() if n.kind == "loop" and n.ast is L_]
    sink_nodes = {n.id for n in g.nodes.values() if n.ast is not None and n.kind == "stmt" and any(s_ in ast.unparse(n.ast) for s_ in sinks)}
    # an explicitly unusable frame (a part is None) may be skipped: only the *true* branch of such a test is exempt
    skip_true: dict[int, int] = {}
    for n in g.nodes.values():
        if n.kind == "cond" and n.ast is not None and "is None" in ast.unparse(n.ast) and "is not None" not in ast.unparse(n.ast):
            nb = [b for b, k in g.succ[n.id] if k == "n"]
            if len(nb) == 2:
                skip_true[n.id] = nb[0]
    for h in heads:
        body = g.succ[h][0][0]
        ok, path = g.must_pass(body, sink_nodes, {h}, skip_edge=lambda n, b, k: k == "exc" or skip_true.get(n.id) == b)
        r.check(bool(sink_nodes) and ok, rid, f"{fn.qualname}#every-frame-handled",
                "a received frame can be dropped without being queued or answered: " + " -> ".join(repr(g.nodes[p]) for p in path[-4:]), loc=fn.loc)


def ack_timeout_handler(m: Model, r: Report, rid: str, fn: FuncInfo, ack_call: str) -> None:
    """The ack wait is under wait_for; its TimeoutError handler closes the connection, then raises BrokenPipeError."""
    waits = [n for n in ast.walk(fn.node) if isinstance(n, ast.Call) and ast.unparse(n.func) == "asyncio.wait_for"
             and n.args and ack_call in ast.unparse(n.args[0])]
    if not waits:
        # the awaited coroutine may be chosen first and awaited in one place: `conf = self._read_ack(...)` ... `await asyncio.wait_for(conf, t)`
        holders = {n.targets[0].id for n in ast.walk(fn.node) if isinstance(n, ast.Assign) and isinstance(n.targets[0], ast.Name) and ack_call in ast.unparse(n.value)} | \
                  {e_.id for n in ast.walk(fn.node) if isinstance(n, ast.Assign) and isinstance(n.targets[0], ast.Tuple) and isinstance(n.value, ast.Tuple)
                   for e_, v_ in zip(n.targets[0].elts, n.value.elts) if isinstance(e_, ast.Name) and ack_call in ast.unparse(v_)}
        waits = [n for n in ast.walk(fn.node) if isinstance(n, ast.Call) and ast.unparse(n.func) == "asyncio.wait_for" and n.args and isinstance(n.args[0], ast.Name) and n.args[0].id in holders]
        if not waits and holders:
            r.unrecognised(rid, f"{fn.qualname}#ack-wait-bounded", f"the coroutine of {ack_call} is held in {sorted(holders)} and awaited in a way the rule does not follow", fn.loc)
            return
    r.check(len(waits) >= 1 and all(len(w.args) >= 2 or any(k.arg == "timeout" for k in w.keywords) for w in waits), rid,
            f"{fn.qualname}#ack-wait-bounded", f"the wait for {ack_call} is not bounded by asyncio.wait_for(..., timeout)", loc=fn.loc)
    for w in waits:
        t = w.args[1] if len(w.args) >= 2 else next(k.value for k in w.keywords if k.arg == "timeout")
        r.check(not (isinstance(t, ast.Constant) and t.value is None), rid, f"{fn.qualname}#ack-timeout-not-none",
                "the acknowledgement timeout is None", loc=fn.loc)
    hs = [h for t in ast.walk(fn.node) if isinstance(t, ast.Try) for h in t.handlers
          if h.type is not None and ast.unparse(h.type) in ("TimeoutError", "asyncio.TimeoutError")
          and any(w in list(ast.walk(t)) for w in waits)]
    ok = False
    if len(hs) == 1:
        body = hs[0].body
        closes = [i for i, s in enumerate(body) if "self.close()" in ast.unparse(s)]
        raises = [i for i, s in enumerate(body) if isinstance(s, ast.Raise) and "BrokenPipeError" in ast.unparse(s)]
        ok = bool(closes) and bool(raises) and closes[0] < raises[0]
    r.check(ok, rid, f"{fn.qualname}#ack-timeout-closes", "on acknowledgement timeout the connection must be closed, then BrokenPipeError raised "
            "(a connection error the client can recover from)", loc=fn.loc)


def bind_call(m: Model, caller: FuncInfo, call: ast.Call) -> dict[str, ast.expr] | None:
    """Map the arguments of a call to the parameter names of the resolved callee (function, classmethod or dataclass-like
    constructor whose fields are the class annotations).  None when the callee cannot be resolved."""
    from sa.model import ClassInfo
    fn = call.func
    callee = None
    if isinstance(fn, ast.Attribute) and isinstance(fn.value, ast.Name) and fn.value.id in ("self", "cls") and caller.cls is not None:
        callee = m.resolve_method(caller.cls, fn.attr)
    else:
        callee = m.resolve_expr(caller.module, fn, caller.cls)
    if callee is None and isinstance(fn, ast.Attribute):
        # receiver of unknown type: resolve by method name when exactly one class of the program defines it
        cands = [c.methods[fn.attr] for c in m.classes.values() if fn.attr in c.methods]
        if len(cands) == 1:
            callee = cands[0]
    params: list[str]
    if isinstance(callee, FuncInfo):
        params = callee.params()
        if callee.cls is not None and params and params[0] in ("self", "cls"):
            params = params[1:]
        kwonly = [a.arg for a in callee.node.args.kwonlyargs]
    elif isinstance(callee, ClassInfo):
        init = m.resolve_method(callee, "__init__")
        if init is not None and init.cls is not None and init.cls.module.name.startswith("gallia"):
            params = init.params()[1:]
            kwonly = [a.arg for a in init.node.args.kwonlyargs]
        else:
            params = list(callee.class_annots)
            kwonly = []
    else:
        return None
    out: dict[str, ast.expr] = {}
    for i, a in enumerate(call.args):
        if isinstance(a, ast.Starred) or i >= len(params):
            return None
        out[params[i]] = a
    for k in call.keywords:
        if k.arg is None:
            return None
        if k.arg not in params and k.arg not in kwonly:
            return None
        out[k.arg] = k.value
    return out


def queues_unbounded(m: Model, r: Report, rid: str, conn, reader: FuncInfo) -> None:
    """The reader task feeds its queues with `await q.put()`, and consumers re-queue skipped frames while they are the only
    consumer: a bounded queue blocks the reader (alive checks unanswered) or deadlocks the re-queueing consumer."""
    put_attrs = {n.func.value.attr for n in ast.walk(reader.node) if isinstance(n, ast.Call) and isinstance(n.func, ast.Attribute) and n.func.attr == "put"
                 and isinstance(n.func.value, ast.Attribute) and ast.unparse(n.func.value.value) == "self"}
    if not put_attrs:
        raise AnalysisError(f"{reader.qualname}: no queue put found")
    init = conn.methods.get("__init__")
    if init is None:
        raise AnalysisError(f"{conn.qualname}.__init__ not found")
    for attr in sorted(put_attrs):
        ctor = [n.value for n in ast.walk(init.node) if isinstance(n, (ast.Assign, ast.AnnAssign)) and n.value is not None
                and ast.unparse(n.targets[0] if isinstance(n, ast.Assign) else n.target) == f"self.{attr}"]
        if len(ctor) != 1 or not (isinstance(ctor[0], ast.Call) and ast.unparse(ctor[0].func).endswith("Queue")):
            raise AnalysisError(f"{conn.qualname}: creation of self.{attr} not found")
        c = ctor[0]
        size = c.args[0] if c.args else next((k.value for k in c.keywords if k.arg == "maxsize"), None)
        v = 0 if size is None else m.try_fold(init.module, size, default="?")
        r.check(isinstance(v, int) and v <= 0, rid, f"{conn.qualname}.{attr}#unbounded",
                f"self.{attr} is created with maxsize={ast.unparse(size) if size is not None else 0}: the reader task blocks in put() once it is full "
                "(alive checks stay unanswered) and a consumer that re-queues skipped frames while holding the mutex deadlocks", loc=f"{init.module.relpath}:{c.lineno}")


def match_subject_total(m: Model, r: Report, rid: str, fn: FuncInfo) -> None:
    """A `match` with a catch-all arm in a reader function must dispatch on the raw wire value: converting it with an Enum
    constructor first raises ValueError for every value the table does not list, so the catch-all arm is dead and the reader task ends."""
    from sa.model import ClassInfo
    n_m = 0
    from types import SimpleNamespace as _NS
    cands_ = [n for n in walk_no_nested(fn.node) if isinstance(n, ast.Match) and any(isinstance(c.pattern, ast.MatchAs) and c.pattern.pattern is None for c in n.cases)]
    if not cands_:
        # the same dispatch written as an if / elif / else chain on one subject: the subject of its first equality test
        from sa import dispatch as _dp
        for st_ in walk_no_nested(fn.node):
            if isinstance(st_, ast.If) and isinstance(st_.test, (ast.Compare, ast.BoolOp)):
                cmp_ = st_.test if isinstance(st_.test, ast.Compare) else next((v for v in st_.test.values if isinstance(v, ast.Compare)), None)
                if cmp_ is None or len(cmp_.ops) != 1 or not isinstance(cmp_.ops[0], (ast.Eq, ast.In)):
                    continue
                for side in (cmp_.left, cmp_.comparators[0]):
                    a_ = _dp.arms(fn.node, ast.unparse(side))
                    if a_ is not None and _dp.default_arm(a_) is not None and len(a_) >= 3:
                        cands_ = [_NS(subject=side, lineno=st_.lineno)]
                        break
                if cands_:
                    break
    for mt in cands_:
        n_m += 1
        partial = []
        for c in ast.walk(mt.subject):
            if isinstance(c, ast.Call):
                t = m.resolve_expr(fn.module, c.func, fn.cls)
                if isinstance(t, ClassInfo) and m.enum_members(t) is not None and not any("_missing_" in k.methods for k in m.mro(t)):
                    partial.append(ast.unparse(c))
        r.check(not partial, rid, f"{fn.qualname}#dispatch-total",
                f"the match subject converts the wire value with {partial}: values outside the enum raise ValueError before the catch-all arm, "
                "the reader task dies and the connection is closed instead of the frame being skipped / reported", loc=f"{fn.module.relpath}:{mt.lineno}")
    if n_m < 1:
        # a dispatch through a module-level table: `TABLE.get(<wire value>)` is total (None for unknown values); `TABLE[<wire value>]` needs a KeyError handler
        for c in [n for n in ast.walk(fn.node) if isinstance(n, ast.Call) and isinstance(n.func, ast.Attribute) and n.func.attr == "get" and isinstance(n.func.value, ast.Name)
                  and isinstance(fn.module.assigns.get(n.func.value.id), ast.Dict) and n.args]:
            n_m += 1
            partial = []
            for k in ast.walk(c.args[0]):
                if isinstance(k, ast.Call):
                    t = m.resolve_expr(fn.module, k.func, fn.cls)
                    if isinstance(t, ClassInfo) and m.enum_members(t) is not None and not any("_missing_" in kk.methods for kk in m.mro(t)):
                        partial.append(ast.unparse(k))
            r.check(not partial, rid, f"{fn.qualname}#dispatch-total",
                    f"the table key converts the wire value with {partial}: values outside the enum raise ValueError before the lookup, the reader task dies", loc=f"{fn.module.relpath}:{c.lineno}")
    if n_m < 1:
        raise AnalysisError(f"{fn.qualname}: no dispatch (match / if-chain / table lookup) with a catch-all arm")


def callee_param_names(m: Model, caller: FuncInfo, call: ast.Call) -> list[str]:
    from sa.model import ClassInfo
    fn = call.func
    if isinstance(fn, ast.Attribute) and isinstance(fn.value, ast.Name) and fn.value.id in ("self", "cls") and caller.cls is not None:
        callee = m.resolve_method(caller.cls, fn.attr)
    else:
        callee = m.resolve_expr(caller.module, fn, caller.cls)
    if isinstance(callee, ClassInfo):
        init = m.resolve_method(callee, "__init__")
        if init is None or not init.module.name.startswith("gallia"):
            return list(callee.class_annots)
        callee = init
    if isinstance(callee, FuncInfo):
        a = callee.node.args
        return [x.arg for x in a.posonlyargs + a.args + a.kwonlyargs]
    return []


def protocol_tables(m: Model, r: Report, rid: str, module: str, tables: dict) -> int:
    """The value tables of a transport (payload types, ack / NACK codes, control words) carry the values of the protocol specification: the transport logic
    names the members (`TargetUnreachable` is tolerated, `Success` activates routing), so a renumbered member changes what happens on the wire while every
    internal use stays consistent."""
    n = 0
    for cname, table in tables.items():
        c = m.require_class(f"{module}.{cname}")
        mem = m.enum_members(c)
        if not mem:
            raise AnalysisError(f"{c.qualname}: enum members not found")
        n += 1
        wrong = {k: (mem.get(k), v) for k, v in table.items() if mem.get(k) != v}
        r.check(not wrong, rid, f"{c.qualname}#spec-values",
                "; ".join(f"{k} = {got if got is None else hex(got)} (specification: {want:#x})" for k, (got, want) in sorted(wrong.items())[:4]), loc=c.loc)
        dup: dict = {}
        for k, v in mem.items():
            dup.setdefault(v, []).append(k)
        clash = {hex(v): ks for v, ks in dup.items() if len(ks) > 1 and isinstance(v, int)}
        if len(set(table.values())) == len(table):  # quantities such as timing parameters may share values
            r.check(not clash, rid, f"{c.qualname}#distinct-values", f"several names share a value (later ones become aliases): {clash}", loc=c.loc)
    return n


def wire_enum_coercion_total(m: Model, r: Report, rid: str, module: str, fn_names: tuple[str, ...] = ("unpack",), strict: tuple[str, ...] = ()) -> int:
    """Decoding a frame never raises for a value the peer chose: every enum the frame decoders (unpack classmethods, the frame reader) coerce a wire
    integer into defines `_missing_` (unknown values map to a catch-all member).  A raising coercion in the reader task ends the task and the connection."""
    mod = m.module(module)
    enums = {c.name: c for c in mod.classes.values() if any(m.is_enum(b) if hasattr(m, "is_enum") else "Enum" in ast.unparse(bn) for b, bn in zip([None] * len(c.node.bases), c.node.bases))} \
        if False else {c.name: c for c in mod.classes.values() if any("Enum" in ast.unparse(bn) for bn in c.node.bases)}
    n = 0
    for f in m.functions():
        if f.module.name != module or f.name not in fn_names:
            continue
        for call in ast.walk(f.node):
            if isinstance(call, ast.Call) and isinstance(call.func, ast.Name) and call.func.id in enums and len(call.args) == 1:
                n += 1
                c = enums[call.func.id]
                guarded = any(isinstance(t, ast.Try) and any(call is x for b_ in t.body for x in ast.walk(b_)) and
                              any(h.type is None or any(k in ast.unparse(h.type) for k in ("ValueError", "Exception")) for h in t.handlers) for t in ast.walk(f.node))
                msg = (f"{c.name}(<wire value>) raises ValueError for a value outside the table: a single frame with an unknown value ends the reader task and closes the connection "
                       "(the 'unhandled' branches behind it are never reached)")
                okc = "_missing_" in c.methods or guarded
                if strict and not any(f.qualname.endswith(sfx) for sfx in strict):
                    # payload decoders: values outside the specification's tables are not part of the property's frame alphabet
                    r.ok(rid, f"{f.qualname}#coerces:{c.name}", "payload decoder")
                    if not okc:
                        r.advisory(rid, f"{f.qualname}#coerces:{c.name}", msg + " [payload decoder: only reachable with a code the specification reserves]", f"{f.module.relpath}:{call.lineno}")
                    continue
                r.check(okc, rid, f"{f.qualname}#coerces:{c.name}", msg, loc=f"{f.module.relpath}:{call.lineno}")
    return n


def optional_payload_fields(m: Model, r: Report, rid: str, module: str, lengths: dict) -> int:
    """Decoders of payload types with optional trailing fields accept every length the specification allows (finite-domain evaluation of unpack() for an
    all-zero payload of each allowed length; struct.unpack is answered by the real struct module)."""
    import struct as _struct
    from sa import miniterp
    n = 0
    for cname, lens in lengths.items():
        c = m.require_class(f"{module}.{cname}")
        f = c.methods.get("unpack")
        if f is None:
            raise AnalysisError(f"{c.qualname}.unpack not found")
        dpar = f.params()[1] if len(f.params()) > 1 else "data"

        def orc(call, env):
            fn = ast.unparse(call.func)
            if fn in ("struct.unpack", "unpack") and len(call.args) == 2:
                fmt, buf = miniterp.eval_expr(call.args[0], env, orc), miniterp.eval_expr(call.args[1], env, orc)
                try:
                    return _struct.unpack(fmt, buf)
                except _struct.error:
                    raise miniterp.Raised(ast.Raise(exc=ast.Name(id="struct.error", ctx=ast.Load()), cause=None))
            if fn == "cls" or fn[:1].isupper():
                return tuple(miniterp.eval_expr(a, env, orc) for a in call.args) or ("obj",)
            return NotImplemented
        bad = []
        for ln in lens:
            n += 1
            try:
                miniterp.run_function(f.node, {"cls": None, dpar: bytes(ln)}, orc)
            except miniterp.Raised as e:
                bad.append(f"{ln} bytes -> raises {ast.unparse(e.node.exc) if e.node.exc is not None else ''}")
        r.check(not bad, rid, f"{f.qualname}#optional-fields", f"{bad}: the specification allows payload lengths {lens} for this type (optional trailing field); the exception ends the "
                "reader task and closes the connection although the frame is valid", loc=f.loc)
    return n


def doip_timing_units(m: Model, r: Report, rid: str) -> int:
    """ISO 13400-2 timing parameters are kept in milliseconds (TimingAndCommunicationParameters); every wait in the DoIP transport that is
    derived from one of them must be that value in seconds (member / 1000)."""
    DOIP_ = "gallia.transports.doip"
    enum = m.require_class(f"{DOIP_}.TimingAndCommunicationParameters")
    mem = m.enum_members(enum)
    if not mem:
        raise AnalysisError(f"{enum.qualname}: members not found")
    n = 0
    for f in m.functions():
        if f.module.name != DOIP_:
            continue
        for c in ast.walk(f.node):
            if not isinstance(c, ast.Call) or ast.unparse(c.func) not in ("asyncio.wait_for", "asyncio.sleep", "asyncio.timeout"):
                continue
            for a in list(c.args) + [k.value for k in c.keywords]:
                used = [x.attr for x in ast.walk(a) if isinstance(x, ast.Attribute) and ast.unparse(x.value) == "TimingAndCommunicationParameters" and x.attr in mem]
                if len(used) != 1:
                    continue
                n += 1
                v = m.try_fold(f.module, a)
                if not isinstance(v, (int, float)):
                    raise AnalysisError(f"{f.qualname}: cannot evaluate the wait `{ast.unparse(a)}`")
                r.check(abs(v - mem[used[0]] / 1000) < 1e-9, rid, f"{f.qualname}#wait:{used[0]}",
                        f"the wait `{ast.unparse(a)}` is {v} s; {used[0]} = {mem[used[0]]} ms must be waited as {mem[used[0]] / 1000} s (the timeout path "
                        "close -> BrokenPipeError is otherwise never reached in useful time)", loc=f"{f.module.relpath}:{c.lineno}")
    return n


def hsfz_ack_timeout_units(m: Model, r: Report, rid: str) -> None:
    """Unit agreement of the HSFZ acknowledgement timeout between the URI producers (docs, `discover hsfz`: milliseconds) and the
    connection (seconds)."""
    HSFZ_ = "gallia.transports.hsfz"
    import sys as _sys
    tr = _sys.modules[__name__]
    # unit agreement of the HSFZ acknowledgement timeout: target URIs carry milliseconds (docs, `discover hsfz`), the connection waits in seconds
    from sa.util import num_eval
    htc = m.require_function(f"{HSFZ_}.HSFZTransport.connect")
    hcalls = [n for n in ast.walk(htc.node) if isinstance(n, ast.Call) and ast.unparse(n.func) == "HSFZConnection.connect"]
    if len(hcalls) != 1:
        raise AnalysisError(f"{htc.qualname}: HSFZConnection.connect call not found")
    hb = tr.bind_call(m, htc, hcalls[0])
    if hb is None or "ack_timeout" not in hb:
        raise AnalysisError(f"{htc.qualname}: cannot bind the ack_timeout argument of HSFZConnection.connect")
    conv = hb["ack_timeout"]
    cfg_names = {ast.unparse(x) for x in ast.walk(conv) if isinstance(x, ast.Attribute) and x.attr == "ack_timeout"}
    if len(cfg_names) != 1:
        raise AnalysisError(f"{htc.qualname}: ack_timeout conversion `{ast.unparse(conv)}` does not read the config field")
    cfg_name = cfg_names.pop()
    hcfg = m.require_class(f"{HSFZ_}.HSFZConfig")
    hconn_init = m.require_function(f"{HSFZ_}.HSFZConnection.__init__")
    d_cfg = m.try_fold(hcfg.module, hcfg.class_attrs.get("ack_timeout")) if hcfg.class_attrs.get("ack_timeout") is not None else None
    d_conn = m.try_fold(hconn_init.module, hconn_init.param_defaults().get("ack_timeout")) if hconn_init.param_defaults().get("ack_timeout") is not None else None
    if not isinstance(d_cfg, (int, float)) or not isinstance(d_conn, (int, float)):
        raise AnalysisError("HSFZ ack_timeout defaults not found")
    got = num_eval(conv, {cfg_name: d_cfg})
    r.check(abs(got - d_conn) < 1e-9, rid, f"{htc.qualname}#ack-timeout-default",
            f"the default HSFZConfig.ack_timeout={d_cfg} becomes an acknowledgement wait of {got} s; the connection's own default is {d_conn} s", loc=htc.loc)
    # the conversion is exact for every setting, not only for multiples of a second (num_eval over representative values)
    scale = d_conn / d_cfg
    off = [(x, num_eval(conv, {cfg_name: x})) for x in (1, 250, 500, 999, 1500, 2750) if abs(num_eval(conv, {cfg_name: x}) - x * scale) > 1e-9]
    r.check(not off, rid, f"{htc.qualname}#ack-timeout-conversion", f"`{ast.unparse(conv)}` maps (setting, wait in s) {off[:3]}: settings that are no multiple of 1000 ms are "
            "truncated (500 ms becomes 0 s: every write fails although the ack arrives in time)", loc=htc.loc)
    probe = m.require_function("gallia.commands.discover.hsfz.HSFZDiscoverer.probe") if "gallia.commands.discover.hsfz.HSFZDiscoverer.probe" in {f.qualname for f in m.functions()} else None
    if probe is None:
        probe = next((f for f in m.functions() if f.module.name == "gallia.commands.discover.hsfz" and f.name == "probe"), None)
    if probe is None:
        raise AnalysisError("discover hsfz: probe() not found")
    emitted = [v for n in ast.walk(probe.node) if isinstance(n, ast.Dict) for k, v in zip(n.keys, n.values)
               if isinstance(k, ast.Constant) and k.value == "ack_timeout"]
    pcalls = [n for n in ast.walk(probe.node) if isinstance(n, ast.Call) and ast.unparse(n.func) == "HSFZConnection.connect"]
    if len(emitted) != 1 or len(pcalls) != 1:
        raise AnalysisError(f"{probe.qualname}: emitted ack_timeout / connection call not found")
    pb = tr.bind_call(m, probe, pcalls[0])
    if pb is None or "ack_timeout" not in pb or not isinstance(pb["ack_timeout"], ast.Name):
        raise AnalysisError(f"{probe.qualname}: cannot bind ack_timeout of the probing connection")
    sec_name = pb["ack_timeout"].id
    bad_units = []
    for secs in (1.0, 2.0, 5.0):
        uri_val = num_eval(emitted[0], {sec_name: secs})
        back = num_eval(conv, {cfg_name: uri_val})
        if abs(back - secs) > 1e-9:
            bad_units.append(f"{secs} s -> ack_timeout={uri_val} in the URI -> {back} s")
    r.check(not bad_units, rid, f"{htc.qualname}#ack-timeout-unit",
            f"the URI that `discover hsfz` emits for a gateway probed with an acknowledgement wait is read back as a different wait: {bad_units}; "
            "with a silent gateway the write then blocks far beyond the documented bound", loc=htc.loc)



def requeue_order(r: Report, rid: str, fn: FuncInfo, reader: FuncInfo, queue_attr: str, skips_deliverable: bool) -> None:
    """A consumer that sets frames aside and later puts them back with put()/put_nowait() appends them *behind* everything the reader
    task queued in the meantime.  If the frames it can set aside are of the kind a user read delivers, the user sees them out of order
    whenever a later frame was already queued (e.g. [data A, ack, data B] arriving in one TCP segment is read as B, A)."""
    tail_puts = [n for n in ast.walk(fn.node) if isinstance(n, ast.Call) and isinstance(n.func, ast.Attribute) and n.func.attr in ("put", "put_nowait")
                 and ast.unparse(n.func.value) == f"self.{queue_attr}" and any(isinstance(a_, ast.For) and any(n is x for x in ast.walk(a_)) for a_ in ast.walk(fn.node))]
    producer = any(isinstance(n, ast.Call) and isinstance(n.func, ast.Attribute) and n.func.attr in ("put", "put_nowait") and ast.unparse(n.func.value) == f"self.{queue_attr}"
                   for n in ast.walk(reader.node))
    # order-preserving idiom: drain what is queued into a list (get_nowait until empty), then refill with set-aside + drained, all without an
    # await in between (put_nowait), so the reader task cannot interleave
    ordered = False
    drains = [w for w in ast.walk(fn.node) if isinstance(w, ast.While) and ast.unparse(w.test).replace(" ", "") == f"notself.{queue_attr}.empty()"
              and any(isinstance(x, ast.Call) and ast.unparse(x.func) == f"self.{queue_attr}.get_nowait" for x in ast.walk(w))]
    if len(drains) == 1:
        drained = {x.func.value.id for x in ast.walk(drains[0]) if isinstance(x, ast.Call) and isinstance(x.func, ast.Attribute) and x.func.attr == "append" and isinstance(x.func.value, ast.Name)}
        refills = [f_ for f_ in ast.walk(fn.node) if isinstance(f_, ast.For) and f_.lineno > drains[0].lineno and isinstance(f_.iter, ast.BinOp) and isinstance(f_.iter.op, ast.Add)
                   and isinstance(f_.iter.right, ast.Name) and f_.iter.right.id in drained and isinstance(f_.iter.left, ast.Name) and f_.iter.left.id not in drained]
        ordered = len(refills) == 1 and all(any(n is x for x in ast.walk(refills[0])) and n.func.attr == "put_nowait" for n in tail_puts) \
            and not any(isinstance(x, ast.Await) for st in (drains[0], refills[0]) for x in ast.walk(st))
    r.check(not (tail_puts and producer and skips_deliverable) or ordered, rid, f"{fn.qualname}#requeue-order",
            f"frames set aside while waiting are appended to the tail of self.{queue_attr}, which {reader.name} fills concurrently, and this consumer can set aside frames "
            "that a later read delivers to the user: they are delivered after frames that arrived later (reads out of order)", loc=fn.loc)


def line_needs_delimiter(m: Model, r: Report, rid: str) -> None:
    """LinesTransportMixin.read: a line that does not end with the delimiter is the remainder of a message whose sender died (readline
    returns it at end-of-stream); it must not be decoded and handed out as a message."""
    rd = m.require_function("gallia.transports.base.LinesTransportMixin.read")
    # evaluated over what readline() can hand back: a complete line is decoded, the unterminated rest of a message (and end-of-stream) is not a message
    import binascii as _ba
    from sa import miniterp as _mtl
    from sa.model import AnalysisError as _AE
    rpar = rd.params()

    def run(line: bytes):
        def orc(call, env_):
            f_ = ast.unparse(call.func)
            if f_ == "asyncio.wait_for" and call.args and ".readline()" in ast.unparse(call.args[0]):
                return line
            if f_.endswith(".readline"):
                return line
            if f_.split(".")[-1] == "unhexlify" and len(call.args) == 1:
                v_ = _mtl.eval_expr(call.args[0], env_, orc)
                try:
                    return _ba.unhexlify(v_)
                except (ValueError, TypeError) as ex_:
                    raise _mtl.Raised(ast.Raise(exc=ast.Name(id=type(ex_).__name__, ctx=ast.Load()), cause=None))
            return None
        ret_, env_ = _mtl.run_function(rd.node, {p_: None for p_ in rpar[1:]}, orc)
        return _mtl.eval_expr(ret_.value, env_, orc) if ret_ is not None and ret_.value is not None else None
    bad, unk = [], None
    try:
        for line_, want in ((b"1003\n", b"\x10\x03"), (b"5003\r\n", b"\x50\x03"), (b"", b""), (b"10", b""), (b"2ef19011", b"")):
            try:
                got = run(line_)
            except _mtl.Raised as ex_:
                got = "raises " + (ast.unparse(ex_.node.exc)[:30] if ex_.node.exc is not None else "")
            if got != want:
                bad.append(f"readline() -> {line_!r}: read() returns {got!r} (expected {want!r})")
    except _AE as ex_:
        unk = str(ex_)
    r.check3(None if unk else not bad, rid, f"{rd.qualname}#incomplete-line",
             f"{bad[:2]}: a line that does not end with the delimiter is the rest of a message whose sender died (readline() returns it at end-of-stream); it must not be "
             "decoded and handed out as a message", loc=rd.loc, unknown_msg=f"read is outside the evaluated language: {unk}")
