"""E2: statement-level control-flow graph with exception / finally / with / loop structure.

Built backwards (continuation passing) so that `finally` bodies and `with` exits are duplicated per
continuation kind (normal, return, break, continue, exception).  Edge kinds:
  'n'   normal fall-through / branch
  'exc' the statement raised (its own effects, e.g. assignments, did NOT happen)
Every statement that contains a call, await, subscript, raise, assert, division or iteration may raise.
An exception raised inside `try` may reach every handler and - unless a handler is a catch-all
(bare / BaseException) - also propagates outward (CancelledError, KeyboardInterrupt are not Exceptions).
"""

from __future__ import annotations

import ast
from dataclasses import dataclass, field
from typing import Callable, Iterable, Iterator


@dataclass
class Node:
    id: int
    kind: str            # entry | stmt | cond | loop | with_enter | with_exit | handler | match | return | raise | exit
    ast: ast.AST | None = None
    copy: str = ""       # which duplicated context this node belongs to ('' = primary)
    label: str = ""

    @property
    def lineno(self) -> int:
        return getattr(self.ast, "lineno", 0)

    def __repr__(self) -> str:
        txt = ""
        if self.ast is not None:
            try:
                txt = ast.unparse(self.ast).split("\n")[0][:60]
            except Exception:  # noqa: BLE001
                txt = type(self.ast).__name__
        return f"<{self.id}:{self.kind}{'/' + self.copy if self.copy else ''} L{self.lineno} {self.label or txt}>"


@dataclass
class Ctx:
    ret: int
    exc: int
    brk: int | None = None
    cont: int | None = None
    copy: str = ""


def _is_logging_call(n: ast.AST) -> bool:
    return isinstance(n, ast.Call) and isinstance(n.func, ast.Attribute) and isinstance(n.func.value, ast.Name) \
        and n.func.value.id == "logger"


def may_raise(node: ast.AST) -> bool:
    # a statement that only logs cannot raise (the logging module swallows handler errors): trusted
    if isinstance(node, ast.Expr) and _is_logging_call(node.value) and not any(
            isinstance(x, (ast.Await, ast.Subscript)) or (isinstance(x, ast.Call) and x is not node.value and not isinstance(x.func, ast.Attribute))
            for x in ast.walk(node.value)):
        return False
    for n in ast.walk(node):
        if isinstance(n, (ast.Call, ast.Await, ast.Subscript, ast.Raise, ast.Assert, ast.Yield, ast.YieldFrom)):
            return True
        if isinstance(n, ast.BinOp) and isinstance(n.op, (ast.Div, ast.FloorDiv, ast.Mod)):
            return True
        if isinstance(n, (ast.FunctionDef, ast.AsyncFunctionDef, ast.Lambda)) and n is not node:
            continue
    return False


def header_may_raise(exprs: Iterable[ast.AST | None]) -> bool:
    return any(e is not None and may_raise(e) for e in exprs)


class CFG:
    def __init__(self, fn: ast.FunctionDef | ast.AsyncFunctionDef) -> None:
        self.fn = fn
        self.nodes: dict[int, Node] = {}
        self.succ: dict[int, list[tuple[int, str]]] = {}
        self.pred: dict[int, list[tuple[int, str]]] = {}
        self._n = 0
        self.exit_return = self._new("exit", label="return-exit").id
        self.exit_raise = self._new("exit", label="raise-exit").id
        ctx = Ctx(ret=self.exit_return, exc=self.exit_raise)
        first = self._seq(fn.body, self.exit_return, ctx)
        self.entry = self._new("entry", label="entry").id
        self._edge(self.entry, first)
        self._prune()

    # ------------------------------------------------------------------ construction
    def _new(self, kind: str, node: ast.AST | None = None, copy: str = "", label: str = "") -> Node:
        self._n += 1
        n = Node(self._n, kind, node, copy, label)
        self.nodes[n.id] = n
        self.succ[n.id] = []
        self.pred[n.id] = []
        return n

    def _edge(self, a: int, b: int, kind: str = "n") -> None:
        if (b, kind) not in self.succ[a]:
            self.succ[a].append((b, kind))
            self.pred[b].append((a, kind))

    def _seq(self, stmts: list[ast.stmt], nxt: int, ctx: Ctx) -> int:
        cur = nxt
        for st in reversed(stmts):
            cur = self._stmt(st, cur, ctx)
        return cur

    def _simple(self, st: ast.AST, nxt: int, ctx: Ctx, kind: str = "stmt") -> int:
        n = self._new(kind, st, ctx.copy)
        self._edge(n.id, nxt)
        if may_raise(st):
            self._edge(n.id, ctx.exc, "exc")
        return n.id

    def _stmt(self, st: ast.stmt, nxt: int, ctx: Ctx) -> int:
        if isinstance(st, (ast.FunctionDef, ast.AsyncFunctionDef, ast.ClassDef)):
            n = self._new("stmt", st, ctx.copy, label=f"def {st.name}")
            self._edge(n.id, nxt)
            return n.id
        if isinstance(st, ast.Return):
            n = self._new("return", st, ctx.copy)
            self._edge(n.id, ctx.ret)
            if st.value is not None and may_raise(st.value):
                self._edge(n.id, ctx.exc, "exc")
            return n.id
        if isinstance(st, ast.Raise):
            n = self._new("raise", st, ctx.copy)
            self._edge(n.id, ctx.exc, "exc")
            return n.id
        if isinstance(st, ast.Break):
            n = self._new("stmt", st, ctx.copy)
            assert ctx.brk is not None
            self._edge(n.id, ctx.brk)
            return n.id
        if isinstance(st, ast.Continue):
            n = self._new("stmt", st, ctx.copy)
            assert ctx.cont is not None
            self._edge(n.id, ctx.cont)
            return n.id
        if isinstance(st, ast.If):
            c = self._new("cond", st.test, ctx.copy)
            self._edge(c.id, self._seq(st.body, nxt, ctx), "n")
            self._edge(c.id, self._seq(st.orelse, nxt, ctx) if st.orelse else nxt, "n")
            self.branch[c.id] = (self.succ[c.id][0][0], self.succ[c.id][-1][0]) if False else None  # placeholder
            if may_raise(st.test):
                self._edge(c.id, ctx.exc, "exc")
            return c.id
        if isinstance(st, ast.While):
            c = self._new("loop", st, ctx.copy, label=f"while {ast.unparse(st.test)[:50]}")
            after = self._seq(st.orelse, nxt, ctx) if st.orelse else nxt
            inner = Ctx(ctx.ret, ctx.exc, brk=nxt, cont=c.id, copy=ctx.copy)
            self._edge(c.id, self._seq(st.body, c.id, inner))
            const_true = isinstance(st.test, ast.Constant) and bool(st.test.value)
            if not const_true:
                self._edge(c.id, after)
            if may_raise(st.test):
                self._edge(c.id, ctx.exc, "exc")
            return c.id
        if isinstance(st, (ast.For, ast.AsyncFor)):
            h = self._new("loop", st, ctx.copy, label=f"for {ast.unparse(st.target)} in {ast.unparse(st.iter)[:40]}")
            after = self._seq(st.orelse, nxt, ctx) if st.orelse else nxt
            inner = Ctx(ctx.ret, ctx.exc, brk=nxt, cont=h.id, copy=ctx.copy)
            self._edge(h.id, self._seq(st.body, h.id, inner))
            self._edge(h.id, after)
            self._edge(h.id, ctx.exc, "exc")
            return h.id
        if isinstance(st, (ast.With, ast.AsyncWith)):
            def mk_exit(target: int, tag: str) -> int:
                x = self._new("with_exit", st, (ctx.copy + "+" if ctx.copy else "") + tag)
                self._edge(x.id, target)
                return x.id
            inner = Ctx(ret=mk_exit(ctx.ret, "ret"), exc=mk_exit(ctx.exc, "exc"),
                        brk=mk_exit(ctx.brk, "brk") if ctx.brk is not None else None,
                        cont=mk_exit(ctx.cont, "cont") if ctx.cont is not None else None, copy=ctx.copy)
            body = self._seq(st.body, mk_exit(nxt, "n"), inner)
            e = self._new("with_enter", st, ctx.copy, label="with " + ", ".join(ast.unparse(i.context_expr)[:40] for i in st.items))
            self._edge(e.id, body)
            self._edge(e.id, ctx.exc, "exc")
            return e.id
        if isinstance(st, (ast.Try, ast.TryStar)):
            return self._try(st, nxt, ctx)
        if isinstance(st, ast.Match):
            mnode = self._new("match", st.subject, ctx.copy)
            wildcard = False
            for case in st.cases:
                self._edge(mnode.id, self._seq(case.body, nxt, ctx))
                if isinstance(case.pattern, ast.MatchAs) and case.pattern.pattern is None and case.guard is None:
                    wildcard = True
            if not wildcard:
                self._edge(mnode.id, nxt)
            if may_raise(st.subject):
                self._edge(mnode.id, ctx.exc, "exc")
            return mnode.id
        return self._simple(st, nxt, ctx)

    def _try(self, st: ast.Try, nxt: int, ctx: Ctx) -> int:
        def fin(target: int | None, tag: str) -> int | None:
            if target is None:
                return None
            if not st.finalbody:
                return target
            sub = Ctx(ctx.ret, ctx.exc, ctx.brk, ctx.cont, copy=(ctx.copy + "+" if ctx.copy else "") + f"finally:{tag}@{st.lineno}")
            return self._seq(st.finalbody, target, sub)

        f_normal = fin(nxt, "n")
        outer = Ctx(ret=fin(ctx.ret, "ret"), exc=fin(ctx.exc, "exc"), brk=fin(ctx.brk, "brk"), cont=fin(ctx.cont, "cont"), copy=ctx.copy)
        # handlers
        catch_all = False
        h_entries: list[int] = []
        for h in st.handlers:
            hn = self._new("handler", h, ctx.copy, label="except " + (ast.unparse(h.type) if h.type is not None else "<bare>"))
            self._edge(hn.id, self._seq(h.body, f_normal, outer))
            h_entries.append(hn.id)
            if h.type is None or ast.unparse(h.type).split(".")[-1] == "BaseException":
                catch_all = True
        dispatch = self._new("stmt", None, ctx.copy, label=f"exception-dispatch@{st.lineno}")
        for hid in h_entries:
            self._edge(dispatch.id, hid)
        if not catch_all:
            self._edge(dispatch.id, outer.exc, "exc")
        body_ctx = Ctx(ret=outer.ret, exc=dispatch.id, brk=outer.brk, cont=outer.cont, copy=ctx.copy)
        after_body = self._seq(st.orelse, f_normal, outer) if st.orelse else f_normal
        return self._seq(st.body, after_body, body_ctx)

    branch: dict[int, tuple[int, int] | None] = {}

    def _prune(self) -> None:
        reach = self.reachable_from(self.entry)
        keep = reach | {self.exit_return, self.exit_raise}
        for nid in list(self.nodes):
            if nid not in keep:
                del self.nodes[nid]
                del self.succ[nid]
                del self.pred[nid]
        for nid in self.nodes:
            self.succ[nid] = [(b, k) for b, k in self.succ[nid] if b in self.nodes]
            self.pred[nid] = [(a, k) for a, k in self.pred[nid] if a in self.nodes]

    # ------------------------------------------------------------------ queries
    def reachable_from(self, start: int, avoid: set[int] | None = None, edge_kinds: tuple[str, ...] = ("n", "exc")) -> set[int]:
        avoid = avoid or set()
        seen: set[int] = set()
        todo = [start]
        while todo:
            n = todo.pop()
            if n in seen or n in avoid:
                continue
            seen.add(n)
            for b, k in self.succ.get(n, []):
                if k in edge_kinds:
                    todo.append(b)
        return seen

    def nodes_where(self, pred: Callable[[Node], bool]) -> list[Node]:
        return [n for n in self.nodes.values() if pred(n)]

    def nodes_of(self, target: ast.AST) -> list[Node]:
        """All CFG nodes (including duplicated finally copies) whose statement contains `target`."""
        out = []
        for n in self.nodes.values():
            if n.ast is None:
                continue
            if n.ast is target:
                out.append(n)
                continue
            if n.kind in ("stmt", "cond", "return", "raise", "match", "with_enter", "loop"):
                scope = n.ast
                if n.kind == "loop":
                    scope = n.ast.test if isinstance(n.ast, ast.While) else n.ast.iter  # type: ignore[attr-defined]
                elif n.kind == "with_enter":
                    scope = ast.Tuple(elts=[i.context_expr for i in n.ast.items])  # type: ignore[attr-defined]
                if any(x is target for x in ast.walk(scope)):
                    out.append(n)
        return out

    def must_pass(self, src: int, via: set[int], dst: set[int], skip_edge=None, completed: bool = False) -> tuple[bool, list[int]]:
        """Does every path from src to any node of dst pass through a node of via?  Returns (ok, witness path).
        skip_edge(node, successor id, kind) -> True removes an edge from consideration.
        completed=True: a via node only counts when it is left normally; a path that leaves it through its exception edge (its effect
        did not happen) is followed further."""
        parent: dict[int, int | None] = {src: None}
        todo = [src]
        while todo:
            n = todo.pop()
            if n in dst and n != src:
                path = []
                cur: int | None = n
                while cur is not None:
                    path.append(cur)
                    cur = parent[cur]
                return False, list(reversed(path))
            for b, k in self.succ.get(n, []):
                if n in via and n != src and k != "exc":
                    continue
                if (b in via and not completed) or b in parent:
                    continue
                if skip_edge is not None and skip_edge(self.nodes[n], b, k):
                    continue
                parent[b] = n
                todo.append(b)
        return True, []

    def dominators(self) -> dict[int, set[int]]:
        nodes = list(self.reachable_from(self.entry))
        allset = set(nodes)
        dom = {n: set(allset) for n in nodes}
        dom[self.entry] = {self.entry}
        changed = True
        while changed:
            changed = False
            for n in nodes:
                if n == self.entry:
                    continue
                preds = [p for p, _ in self.pred[n] if p in dom]
                new = set.intersection(*(dom[p] for p in preds)) if preds else set()
                new = new | {n}
                if new != dom[n]:
                    dom[n] = new
                    changed = True
        return dom

    def loop_depth(self, nid: int) -> int:
        """Number of loop statements whose body (syntactically) contains the node's statement."""
        node = self.nodes[nid]
        if node.ast is None:
            return 0
        depth = 0
        for l in ast.walk(self.fn):
            if isinstance(l, (ast.For, ast.AsyncFor, ast.While)):
                for b in l.body:
                    if any(x is node.ast for x in ast.walk(b)):
                        depth += 1
                        break
        return depth

    # ------------------------------------------------------------------ definite assignment
    def possibly_unbound_uses(self, params: Iterable[str]) -> list[tuple[Node, str]]:
        """(node, name) where a local name may be read before any assignment on some path."""
        assigned_anywhere: set[str] = set()
        for n in self.nodes.values():
            assigned_anywhere |= defs_of(n)
        local = assigned_anywhere
        start = set(params)
        IN: dict[int, set[str] | None] = {n: None for n in self.nodes}
        IN[self.entry] = set(start)
        work = [self.entry]
        while work:
            n = work.pop()
            cur = IN[n]
            assert cur is not None
            out_n = cur | defs_of(self.nodes[n])
            for b, k in self.succ[n]:
                val = out_n if k == "n" else (cur | partial_defs_on_exc(self.nodes[n]))
                if IN[b] is None:
                    IN[b] = set(val)
                    work.append(b)
                else:
                    new = IN[b] & val
                    if new != IN[b]:
                        IN[b] = new
                        work.append(b)
        out = []
        for nid, node in self.nodes.items():
            if IN[nid] is None:
                continue
            for name in uses_of(node):
                if name in local and name not in IN[nid]:  # type: ignore[operator]
                    out.append((node, name))
        return out


def _targets(t: ast.AST) -> Iterator[str]:
    if isinstance(t, ast.Name):
        yield t.id
    elif isinstance(t, (ast.Tuple, ast.List)):
        for e in t.elts:
            yield from _targets(e)
    elif isinstance(t, ast.Starred):
        yield from _targets(t.value)


def defs_of(n: Node) -> set[str]:
    a = n.ast
    out: set[str] = set()
    if a is None:
        return out
    if n.kind == "handler":
        if isinstance(a, ast.ExceptHandler) and a.name:
            out.add(a.name)
        return out
    if n.kind == "loop":
        if isinstance(a, (ast.For, ast.AsyncFor)):
            out |= set(_targets(a.target))
        else:
            for x in ast.walk(a.test):  # type: ignore[attr-defined]
                if isinstance(x, ast.NamedExpr):
                    out.add(x.target.id)
        return out
    if n.kind == "with_enter":
        for i in a.items:  # type: ignore[attr-defined]
            if i.optional_vars is not None:
                out |= set(_targets(i.optional_vars))
        return out
    if n.kind == "with_exit":
        return out
    if isinstance(a, ast.Assign):
        for t in a.targets:
            out |= set(_targets(t))
    elif isinstance(a, (ast.AnnAssign, ast.AugAssign)):
        if isinstance(a, ast.AnnAssign) and a.value is None:
            return out
        out |= set(_targets(a.target))
    elif isinstance(a, (ast.FunctionDef, ast.AsyncFunctionDef, ast.ClassDef)):
        out.add(a.name)
    elif isinstance(a, (ast.Import, ast.ImportFrom)):
        for al in a.names:
            out.add((al.asname or al.name).split(".")[0])
    for x in ast.walk(a):
        if isinstance(x, ast.NamedExpr):
            out.add(x.target.id)
        if isinstance(x, (ast.FunctionDef, ast.AsyncFunctionDef, ast.Lambda)) and x is not a:
            pass
    return out


def partial_defs_on_exc(n: Node) -> set[str]:
    return set()


def uses_of(n: Node) -> set[str]:
    a = n.ast
    if a is None or n.kind in ("with_exit",):
        return set()
    scope: list[ast.AST]
    if n.kind == "handler":
        return set()
    if n.kind == "loop":
        scope = [a.iter] if isinstance(a, (ast.For, ast.AsyncFor)) else [a.test]  # type: ignore[attr-defined]
    elif n.kind == "with_enter":
        scope = [i.context_expr for i in a.items]  # type: ignore[attr-defined]
    elif isinstance(a, (ast.FunctionDef, ast.AsyncFunctionDef, ast.ClassDef)):
        return set()
    else:
        scope = [a]
    out: set[str] = set()
    for s in scope:
        stack = [s]
        while stack:
            x = stack.pop()
            if isinstance(x, (ast.Lambda, ast.FunctionDef, ast.AsyncFunctionDef)):
                continue
            if isinstance(x, (ast.ListComp, ast.SetComp, ast.DictComp, ast.GeneratorExp)):
                bound = {t for g in x.generators for t in _targets(g.target)}
                inner: set[str] = set()
                for c in ast.walk(x):
                    if isinstance(c, ast.Name) and isinstance(c.ctx, ast.Load) and c.id not in bound:
                        inner.add(c.id)
                out |= inner
                continue
            if isinstance(x, ast.Name) and isinstance(x.ctx, ast.Load):
                out.add(x.id)
            if isinstance(x, ast.AugAssign) and isinstance(x.target, ast.Name):
                out.add(x.target.id)
            stack.extend(ast.iter_child_nodes(x))
    return out


def enumerate_paths(g: CFG, limit: int = 4000) -> list[tuple[list[tuple[str, bool]], Node, list[Node]]]:
    """All acyclic entry->exit paths (normal edges only; loops taken at most once per head) as
    ([(condition text, truth)], terminal return/raise node, visited statement nodes)."""
    out: list[tuple[list[tuple[str, bool]], Node, list[Node]]] = []

    def walk(nid: int, conds: list[tuple[str, bool]], seen: tuple[int, ...], visited: list[Node]) -> None:
        if len(out) >= limit:
            return
        node = g.nodes[nid]
        if node.kind in ("return", "raise"):
            out.append((conds, node, visited))
            return
        if nid in (g.exit_return, g.exit_raise):
            out.append((conds, node, visited))
            return
        if nid in seen:
            return
        seen = seen + (nid,)
        normal = [b for b, k in g.succ[nid] if k == "n"]
        if node.kind == "cond" and len(normal) == 2 and node.ast is not None:
            txt = ast.unparse(node.ast)
            walk(normal[0], conds + [(txt, True)], seen, visited)
            walk(normal[1], conds + [(txt, False)], seen, visited)
            return
        if node.kind == "loop" and len(normal) == 2 and node.ast is not None:
            walk(normal[0], conds + [("loop:" + node.label, True)], seen, visited)
            walk(normal[1], conds + [("loop:" + node.label, False)], seen, visited)
            return
        for b in normal:
            walk(b, conds, seen, visited + ([node] if node.kind == "stmt" else []))

    walk(g.entry, [], (), [])
    return out
