"""E5: asyncio lock / queue / task analysis on top of the call graph."""

from __future__ import annotations

import ast
from dataclasses import dataclass

from .callgraph import CallGraph, CallSite
from .model import ClassInfo, FuncInfo, Model, walk_no_nested

LockKey = tuple[str, str]  # (qualname of the class that creates the attribute, attribute)


def _parents(root: ast.AST) -> dict[int, ast.AST]:
    out: dict[int, ast.AST] = {}
    for p in ast.walk(root):
        for c in ast.iter_child_nodes(p):
            out[id(c)] = p
    return out


class LockModel:
    def __init__(self, m: Model, cg: CallGraph) -> None:
        self.m = m
        self.cg = cg
        self.locks: dict[LockKey, str] = {}
        self.queues: dict[LockKey, str] = {}
        self._par: dict[str, dict[int, ast.AST]] = {}
        for c in m.classes.values():
            for f in c.methods.values():
                for n in walk_no_nested(f.node):
                    if isinstance(n, (ast.Assign, ast.AnnAssign)):
                        val = n.value
                        tgts = n.targets if isinstance(n, ast.Assign) else [n.target]
                        if not isinstance(val, ast.Call):
                            continue
                        ctor = ast.unparse(val.func)
                        for t in tgts:
                            if isinstance(t, ast.Attribute) and isinstance(t.value, ast.Name) and t.value.id == "self":
                                if ctor in ("asyncio.Lock", "Lock"):
                                    self.locks[(c.qualname, t.attr)] = f"{f.module.relpath}:{n.lineno}"
                                elif ctor.split("[")[0] in ("asyncio.Queue", "Queue"):
                                    self.queues[(c.qualname, t.attr)] = f"{f.module.relpath}:{n.lineno}"

    # ------------------------------------------------------------------ keys
    def key_for(self, cls: ClassInfo | None, attr: str, table: dict[LockKey, str]) -> LockKey | None:
        if cls is None:
            return None
        found = None
        for c in self.m.mro(cls):
            if (c.qualname, attr) in table:
                found = (c.qualname, attr)  # the root-most creator names the attribute (subclasses re-create the same attribute)
        return found

    def par(self, f: FuncInfo) -> dict[int, ast.AST]:
        if f.qualname not in self._par:
            self._par[f.qualname] = _parents(f.node)
        return self._par[f.qualname]

    def held_syntactic(self, f: FuncInfo, node: ast.AST) -> set[LockKey]:
        out: set[LockKey] = set()
        par = self.par(f)
        cur = par.get(id(node))
        while cur is not None:
            if isinstance(cur, (ast.AsyncWith, ast.With)):
                for it in cur.items:
                    e = it.context_expr
                    if isinstance(e, ast.Attribute) and isinstance(e.value, ast.Name) and e.value.id == "self":
                        k = self.key_for(f.cls, e.attr, self.locks)
                        if k is not None and node is not e:
                            out.add(k)
            cur = par.get(id(cur))
        return out

    def acquisitions(self, f: FuncInfo) -> list[tuple[LockKey, ast.AST]]:
        out = []
        for n in walk_no_nested(f.node):
            if isinstance(n, (ast.AsyncWith, ast.With)):
                for it in n.items:
                    e = it.context_expr
                    if isinstance(e, ast.Attribute) and isinstance(e.value, ast.Name) and e.value.id == "self":
                        k = self.key_for(f.cls, e.attr, self.locks)
                        if k is not None:
                            out.append((k, n))
        return out

    def raw_lock_calls(self, f: FuncInfo) -> list[ast.Call]:
        out = []
        for n in walk_no_nested(f.node):
            if isinstance(n, ast.Call) and isinstance(n.func, ast.Attribute) and n.func.attr in ("acquire", "release", "locked"):
                v = n.func.value
                if isinstance(v, ast.Attribute) and isinstance(v.value, ast.Name) and v.value.id == "self" and \
                        self.key_for(f.cls, v.attr, self.locks) is not None and n.func.attr != "locked":
                    out.append(n)
        return out

    # ------------------------------------------------------------------ transitive acquisition
    def may_acquire(self, f: FuncInfo, _seen: set[str] | None = None) -> dict[LockKey, list[str]]:
        """locks f may acquire (transitively, not across task roots) -> witness call chain"""
        seen = _seen if _seen is not None else set()
        out: dict[LockKey, list[str]] = {}
        if f.qualname in seen:
            return out
        seen.add(f.qualname)
        for k, _ in self.acquisitions(f):
            out.setdefault(k, [f.qualname])
        for cs, t in self.cg.callees(f):
            for k, chain in self.may_acquire(t, seen).items():
                out.setdefault(k, [f.qualname] + chain)
        return out

    # ------------------------------------------------------------------ must-hold
    def must_hold(self, lock: LockKey, entry_points: set[str]) -> dict[str, bool]:
        """f -> True iff on every call path from an entry point f is entered with `lock` held."""
        funcs = self.cg.funcs
        val = {q: q not in entry_points for q in funcs}
        changed = True
        while changed:
            changed = False
            for q, f in funcs.items():
                if not val[q]:
                    continue
                callers = [cs for cs in self.cg.callers.get(q, [])]
                ok = bool(callers)
                for cs in callers:
                    if cs.task_root:
                        ok = False
                        break
                    if lock in self.held_syntactic(cs.caller, cs.node):
                        continue
                    if val.get(cs.caller.qualname, False):
                        continue
                    ok = False
                    break
                if not ok:
                    val[q] = False
                    changed = True
        return val

    def may_hold(self, lock: LockKey) -> dict[str, list[str]]:
        """f -> witness chain iff some call path enters f with `lock` held."""
        out: dict[str, list[str]] = {}
        todo: list[tuple[FuncInfo, list[str]]] = []
        for q, f in self.cg.funcs.items():
            for cs in self.cg.sites.get(q, []):
                if cs.task_root:
                    continue
                if lock in self.held_syntactic(f, cs.node):
                    for t in cs.targets:
                        todo.append((t, [f"{q} (holds {lock[1]})", t.qualname]))
        while todo:
            f, chain = todo.pop()
            if f.qualname in out:
                continue
            out[f.qualname] = chain
            for cs, t in self.cg.callees(f):
                if t.qualname not in out:
                    todo.append((t, chain + [t.qualname]))
        return out

    # ------------------------------------------------------------------ queues
    def queue_ops(self, f: FuncInfo, op: str) -> list[tuple[LockKey, ast.Call]]:
        out = []
        for n in walk_no_nested(f.node):
            if isinstance(n, ast.Call) and isinstance(n.func, ast.Attribute) and n.func.attr in ((op,) if op != "put" else ("put", "put_nowait")):
                v = n.func.value
                if isinstance(v, ast.Attribute) and isinstance(v.value, ast.Name) and v.value.id == "self":
                    k = self.key_for(f.cls, v.attr, self.queues)
                    if k is not None:
                        out.append((k, n))
        return out
