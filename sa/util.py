"""Small shared AST helpers for the rule sets."""
from __future__ import annotations

import ast

from .model import FuncInfo, Model, walk_no_nested

UTILS = "gallia.services.uds.core.utils"


def effective_max_length(m: Model, mod, call: ast.Call, depth: int = 0):
    """Value of utils.bytes_repr's max_length parameter that a bytes_repr(...) call ends up with, or 'unknown'."""
    if depth > 3:
        return "unknown"
    callee = m.resolve_expr(mod, call.func)
    if not isinstance(callee, FuncInfo):
        return "unknown"
    target = m.require_function(f"{UTILS}.bytes_repr")
    if callee.qualname == target.qualname:
        params = callee.params()
        bound: dict[str, ast.expr] = dict(zip(params, call.args))
        for kw in call.keywords:
            if kw.arg:
                bound[kw.arg] = kw.value
        if "max_length" in bound:
            try:
                return m.fold(mod, bound["max_length"])
            except Exception:  # noqa: BLE001
                return "unknown"
        d = callee.param_defaults().get("max_length")
        return m.try_fold(callee.module, d, default="unknown") if d is not None else "unknown"
    rets = [n for n in walk_no_nested(callee.node) if isinstance(n, ast.Return)]
    if len(rets) == 1 and isinstance(rets[0].value, ast.Call):
        return effective_max_length(m, callee.module, rets[0].value, depth + 1)
    return "unknown"


def calls_in(node: ast.AST, text: str) -> list[ast.Call]:
    return [n for n in ast.walk(node) if isinstance(n, ast.Call) and ast.unparse(n.func) == text]


def stmt_calls(node: ast.AST, attr: str) -> list[ast.Call]:
    return [n for n in ast.walk(node) if isinstance(n, ast.Call) and isinstance(n.func, ast.Attribute) and n.func.attr == attr]
