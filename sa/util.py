"""Small shared AST helpers for the rule sets."""
from __future__ import annotations

import ast

from .model import AnalysisError, FuncInfo, Model, walk_no_nested

UTILS = "gallia.services.uds.core.utils"


def effective_max_length(m: Model, mod, call: ast.Call, depth: int = 0):
    """Value of utils.bytes_repr's max_length parameter that a bytes_repr(...) call ends up with, or 'unknown'."""
    if depth > 3:
        return "unknown"
    callee = m.resolve_expr(mod, call.func)
    if not isinstance(callee, FuncInfo):
        return "unknown"
    target = m.require_function(f"{UTILS}.bytes_repr")
    if callee.qualname == target.qualname:
        params = callee.params()
        bound: dict[str, ast.expr] = dict(zip(params, call.args))
        for kw in call.keywords:
            if kw.arg:
                bound[kw.arg] = kw.value
        if "max_length" in bound:
            try:
                return m.fold(mod, bound["max_length"])
            except Exception:  # noqa: BLE001
                return "unknown"
        d = callee.param_defaults().get("max_length")
        return m.try_fold(callee.module, d, default="unknown") if d is not None else "unknown"
    rets = [n for n in walk_no_nested(callee.node) if isinstance(n, ast.Return)]
    if len(rets) == 1 and isinstance(rets[0].value, ast.Call):
        return effective_max_length(m, callee.module, rets[0].value, depth + 1)
    return "unknown"


def calls_in(node: ast.AST, text: str) -> list[ast.Call]:
    return [n for n in ast.walk(node) if isinstance(n, ast.Call) and ast.unparse(n.func) == text]


def stmt_calls(node: ast.AST, attr: str) -> list[ast.Call]:
    return [n for n in ast.walk(node) if isinstance(n, ast.Call) and isinstance(n.func, ast.Attribute) and n.func.attr == attr]


def check_unravel_2d(m: Model, r, rid: str) -> None:
    """Accumulator discipline of utils.unravel_2d: a bare outer key stores None ('all') unconditionally; id sets are only created
    for keys not yet present and only extended when the entry is not None.  (Shared by C10 and C20.)"""
    from .model import AnalysisError
    u2 = m.require_function("gallia.utils.unravel_2d")
    cands = [ast.unparse(n.target if isinstance(n, ast.AnnAssign) else n.targets[0]) for n in ast.walk(u2.node)
             if isinstance(n, (ast.Assign, ast.AnnAssign)) and isinstance(n.value, ast.Dict) and not n.value.keys]
    if len(cands) != 1:
        raise AnalysisError(f"{u2.qualname}: accumulator dict not found ({cands})")
    mp = cands[0]
    par: dict[int, ast.AST] = {}
    for p_ in ast.walk(u2.node):
        for c in ast.iter_child_nodes(p_):
            par[id(c)] = p_

    def guards(n: ast.AST) -> list[tuple[str, str]]:
        """Conditions under which n is reached, as ("then" | "else", positive test text): enclosing ifs and guard clauses alike (path conditions in normal form)."""
        return [("then" if pol else "else", t) for t, pol in norm_conds(path_condition(u2.node, n))]

    stores = [n for n in ast.walk(u2.node) if isinstance(n, ast.Assign) and isinstance(n.targets[0], ast.Subscript) and ast.unparse(n.targets[0].value) == mp]
    none_stores = [s for s in stores if isinstance(s.value, ast.Constant) and s.value.value is None]
    # `map.setdefault(key, set())` creates the id set only for a key that is not in the map yet (and hands back the entry otherwise): it is the
    # listing branch's "create if absent"; any other dict helper on the accumulator can replace or drop an entry
    def creates_if_absent(n: ast.Call) -> bool:
        return n.func.attr == "setdefault" and len(n.args) == 2 and isinstance(n.args[1], ast.Call) and ast.unparse(n.args[1]) == "set()" and not n.keywords
    mp_calls = [n for n in ast.walk(u2.node) if isinstance(n, ast.Call) and isinstance(n.func, ast.Attribute) and ast.unparse(n.func.value) == mp
                and n.func.attr in ("setdefault", "get", "pop", "update")]
    helper_calls = [ast.unparse(n) for n in mp_calls if not creates_if_absent(n)]
    creators = [n for n in mp_calls if creates_if_absent(n)]
    ok_none = len(none_stores) == 1 and not helper_calls and any(side == "else" and " in " in t and "not in" not in t for side, t in guards(none_stores[0])) and \
        not any(side == "then" and ("not in" in t or "is None" in t) for side, t in guards(none_stores[0]))
    r.check(ok_none, rid, f"{u2.qualname}#bare-key-means-all",
            f"a bare outer key must store None ('all') with a plain, unconditional assignment (None stores: {[ast.unparse(s) for s in none_stores]}, "
            f"dict helper calls: {helper_calls}): '7:1,3-5 7' and '0x02 0x01-0x03:0x27' both denote all of the bare key", loc=u2.loc)
    other = [s for s in stores if s not in none_stores]
    def key_of(s_):
        return ast.unparse(s_.targets[0].slice)
    r.check(bool(other or creators) and all(any(side == "else" and t.replace(" ", "") == f"{key_of(s)}in{mp}" for side, t in guards(s)) for s in other), rid,
            f"{u2.qualname}#listing-never-replaces-all",
            f"an id set may only be created for a key that is not in the map yet ({[ast.unparse(s) for s in other]}): otherwise a later `key:ids` entry "
            "replaces an earlier whole-key entry", loc=u2.loc)
    muts = [n for n in ast.walk(u2.node) if isinstance(n, ast.Call) and isinstance(n.func, ast.Attribute) and n.func.attr in ("add", "update") and ast.unparse(n.func.value) != mp]
    r.check(bool(muts) and all(any(side == "else" and " is None" in t for side, t in guards(x)) for x in muts), rid, f"{u2.qualname}#extend-only-sets",
            "ids may only be added to an entry that is tested to be not None", loc=u2.loc)


def num_eval(expr: ast.expr, env: dict[str, float | int]):
    """Evaluate a small arithmetic expression (constants, names / attribute chains bound in env, + - * / // %, int(), float(),
    round()) - used to compare unit conversions on concrete representative values.  Raises AnalysisError outside the language."""
    t = ast.unparse(expr)
    if t in env:
        return env[t]
    if isinstance(expr, ast.Constant) and isinstance(expr.value, (int, float)) and not isinstance(expr.value, bool):
        return expr.value
    if isinstance(expr, ast.UnaryOp) and isinstance(expr.op, ast.USub):
        return -num_eval(expr.operand, env)
    if isinstance(expr, ast.BinOp):
        a, b = num_eval(expr.left, env), num_eval(expr.right, env)
        ops = {ast.Add: lambda x, y: x + y, ast.Sub: lambda x, y: x - y, ast.Mult: lambda x, y: x * y, ast.Div: lambda x, y: x / y,
               ast.FloorDiv: lambda x, y: x // y, ast.Mod: lambda x, y: x % y}
        if type(expr.op) in ops:
            return ops[type(expr.op)](a, b)
    if isinstance(expr, ast.Call) and isinstance(expr.func, ast.Name) and expr.func.id in ("int", "float", "round") and len(expr.args) == 1 and not expr.keywords:
        return {"int": int, "float": float, "round": round}[expr.func.id](num_eval(expr.args[0], env))
    raise AnalysisError(f"expression outside the arithmetic language: {t}")


def _block_terminates(block: list[ast.stmt]) -> bool:
    """Control never falls out of the end of the block (return / raise / continue / break, or an if/else whose arms all do)."""
    if not block:
        return False
    last = block[-1]
    if isinstance(last, (ast.Return, ast.Raise, ast.Continue, ast.Break)):
        return True
    if isinstance(last, ast.If):
        return _block_terminates(last.body) and _block_terminates(last.orelse)
    return False


def path_condition(root: ast.AST, target: ast.AST) -> list[tuple[ast.expr, bool]]:
    """Tests that hold whenever target is reached, outermost first: the `if` statements enclosing it with the polarity of the branch that
    contains it, and guard clauses - an earlier `if c: ...; return/raise/continue/break` (or an if/else with one such arm) in an enclosing
    block contributes the polarity under which control goes on."""
    out: list[tuple[ast.expr, bool]] = []

    def stores(node: ast.AST) -> set[str]:
        out_: set[str] = set()
        for x in ast.walk(node):
            if isinstance(x, ast.Name) and isinstance(x.ctx, (ast.Store, ast.Del)):
                out_.add(x.id)
            elif isinstance(x, ast.Attribute) and isinstance(x.ctx, (ast.Store, ast.Del)):
                out_.add(ast.unparse(x))
        return out_

    def reads(test: ast.expr) -> set[str]:
        return {x.id for x in ast.walk(test) if isinstance(x, ast.Name)} | {ast.unparse(x) for x in ast.walk(test) if isinstance(x, ast.Attribute)}

    def visit_block(block: list[ast.stmt], acc: list[tuple[ast.expr, bool]]) -> bool:
        guards: list[tuple[ast.expr, bool]] = []
        for st in block:
            changed = stores(st)
            # a guard only keeps holding while nothing it reads is assigned again
            guards = [g for g in guards if not (reads(g[0]) & changed)]
            if visit(st, list(acc) + guards):
                return True
            if isinstance(st, ast.If):
                bt, et = _block_terminates(st.body), _block_terminates(st.orelse)
                if bt and not et and not (reads(st.test) & stores(st)):
                    guards.append((st.test, False))
                elif et and not bt and not (reads(st.test) & stores(st)):
                    guards.append((st.test, True))
        return False

    def visit(node: ast.AST, acc: list[tuple[ast.expr, bool]]) -> bool:
        if node is target:
            out.extend(acc)
            return True
        if isinstance(node, ast.If):
            if visit_block(node.body, acc + [(node.test, True)]):
                return True
            if visit_block(node.orelse, acc + [(node.test, False)]):
                return True
            # the test itself
            return any(x is target for x in ast.walk(node.test)) and (out.extend(acc) or True)
        if isinstance(node, (ast.While, ast.For, ast.AsyncFor)):
            # a guard inside a loop body says nothing about the statements after the loop, and nothing carries over between iterations
            for fld in ("test", "iter", "target"):
                sub = getattr(node, fld, None)
                if sub is not None and any(x is target for x in ast.walk(sub)):
                    out.extend(acc)
                    return True
            return visit_block(node.body, acc) or visit_block(node.orelse, acc)
        for fld, val in ast.iter_fields(node):
            if isinstance(val, list) and val and isinstance(val[0], ast.stmt):
                if visit_block(val, acc):
                    return True
            elif isinstance(val, list):
                for c in val:
                    if isinstance(c, ast.AST) and visit(c, acc):
                        return True
            elif isinstance(val, ast.AST):
                if visit(val, acc):
                    return True
        return False
    if not visit(root, []):
        raise AnalysisError("path_condition: target is not inside root")
    return out


def truth_table(conds: list[tuple[ast.expr, bool]], atoms: dict[str, list], expect, oracle=None) -> list[str]:
    """Evaluate the conjunction of (test, polarity) pairs for every combination of the atom values (a complete case analysis when the
    atoms are only compared / tested for None); returns the rows on which it differs from expect(assignment)."""
    import itertools
    from . import miniterp
    bad = []
    keys = list(atoms)

    def mentions_atom(t: ast.expr) -> bool:
        return any((isinstance(x, ast.Name) and x.id in atoms) or (isinstance(x, ast.Attribute) and ast.unparse(x) in atoms) for x in ast.walk(t))
    # tests that read none of the atoms do not take part in the case analysis (they restrict the path independently of the decision examined)
    if oracle is None:
        conds = [c for c in conds if mentions_atom(c[0])]
    for combo in itertools.product(*(atoms[k] for k in keys)):
        env = dict(zip(keys, combo))
        taken = True
        try:
            for test, pol in conds:
                if bool(miniterp.eval_expr(test, env, oracle)) != pol:
                    taken = False
                    break
        except AnalysisError:
            raise
        want = bool(expect(dict(zip(keys, combo))))
        if taken != want:
            bad.append(", ".join(f"{k}={v!r}" for k, v in zip(keys, combo)) + f" -> {'taken' if taken else 'skipped'}")
    return bad


def byte_fn(m: Model, mod, expr: ast.expr, sym: str):
    """Compile a pure integer expression over one PDU byte (written `sym`, e.g. `self.pdu[0]`) into a python function of that
    byte, for exhaustive evaluation over 0..255.  Returns None when the expression is outside this small language."""
    def ev(e: ast.expr, b: int):
        if ast.unparse(e) == sym:
            return b
        c = m.try_fold(mod, e)
        if isinstance(c, int):
            return int(c)
        if isinstance(e, ast.BinOp):
            a, c2 = ev(e.left, b), ev(e.right, b)
            ops = {ast.Add: lambda x, y: x + y, ast.Sub: lambda x, y: x - y, ast.BitAnd: lambda x, y: x & y, ast.BitOr: lambda x, y: x | y,
                   ast.BitXor: lambda x, y: x ^ y, ast.Mod: lambda x, y: x % y, ast.LShift: lambda x, y: x << y, ast.RShift: lambda x, y: x >> y}
            if type(e.op) not in ops:
                raise NotImplementedError(ast.unparse(e))
            return ops[type(e.op)](a, c2)
        if isinstance(e, ast.IfExp) and isinstance(e.test, ast.Compare) and len(e.test.ops) == 1:
            l, rr = ev(e.test.left, b), ev(e.test.comparators[0], b)
            t = {ast.Lt: l < rr, ast.LtE: l <= rr, ast.Gt: l > rr, ast.GtE: l >= rr, ast.Eq: l == rr, ast.NotEq: l != rr}.get(type(e.test.ops[0]))
            if t is None:
                raise NotImplementedError(ast.unparse(e))
            return ev(e.body if t else e.orelse, b)
        raise NotImplementedError(ast.unparse(e))
    try:
        ev(expr, 0)
    except NotImplementedError:
        return None
    return lambda b: ev(expr, b)




def bytes_repr_truncates(m: Model, max_length) -> str | None:
    """Evaluate utils.bytes_repr (its source, in the finite-domain interpreter) for a byte string longer than every constant the
    function mentions, with the max_length the caller ends up passing.  Returns a description if the result is not the complete
    hex string, None if it is."""
    import binascii
    from . import miniterp
    f = m.require_function(f"{UTILS}.bytes_repr")
    consts = [n.value for n in ast.walk(f.node) if isinstance(n, ast.Constant) and isinstance(n.value, int) and not isinstance(n.value, bool)]
    for v in f.module.assigns.values():
        c = m.try_fold(f.module, v)
        if isinstance(c, int) and not isinstance(c, bool):
            consts.append(c)
    n = 2 * max([abs(c) for c in consts] + [64]) + 50
    data = bytes(range(256)) * (n // 256 + 1)
    data = data[:n]
    env: dict = {}
    for k, v in f.module.assigns.items():
        c = m.try_fold(f.module, v, default=NotImplemented)
        if c is not NotImplemented and isinstance(c, (int, str, bytes, type(None))):
            env[k] = c
    params = f.params()
    defaults = {k: m.try_fold(f.module, v) for k, v in f.param_defaults().items()}
    env.update({params[0]: data})
    for p_ in params[1:]:
        env[p_] = defaults.get(p_)
    env["max_length"] = max_length
    if "prefix" in env:
        env["prefix"] = False
    def oracle(call: ast.Call, e):
        if ast.unparse(call.func) in ("hexlify", "binascii.hexlify") and len(call.args) == 1:
            return binascii.hexlify(miniterp.eval_expr(call.args[0], e, oracle))
        return NotImplemented
    ret, renv = miniterp.run_function(f.node, env, oracle)
    if ret is None or ret.value is None:
        return "bytes_repr returns nothing"
    out = miniterp.eval_expr(ret.value, renv, oracle)
    want = binascii.hexlify(data).decode()
    if out != want:
        return f"a {n}-byte string is rendered as {len(out) if isinstance(out, str) else type(out).__name__} characters ({out[:24]!r}...) instead of {len(want)}"
    return None


def check_unravel_inclusive(m: Model, r, rid: str) -> None:
    """utils.unravel: 'a-b' includes b (shared by the properties whose skip lists are parsed with it)."""
    un = m.require_function("gallia.utils.unravel")
    rng = [n for n in ast.walk(un.node) if isinstance(n, ast.Call) and ast.unparse(n.func) == "range"]
    r.check(len(rng) == 1 and m.mtext(un, rng[0]).replace(" ", "") == "range(_L,_L+1)", rid, f"{un.qualname}#inclusive",
            f"range elements come from `{ast.unparse(rng[0]) if rng else None}`; 'a-b' includes b", loc=un.loc)
    # every element of the range reaches the result: the expansion loop never ends early and adds each element (a membership test is the only harmless guard)
    loops = [n for n in ast.walk(un.node) if isinstance(n, ast.For) and rng and any(x is rng[0] for x in ast.walk(n.iter))]
    if len(loops) == 1 and isinstance(loops[0].target, ast.Name):
        lp, v = loops[0], loops[0].target.id
        adds = [c for c in ast.walk(lp) if isinstance(c, ast.Call) and isinstance(c.func, ast.Attribute) and c.func.attr == "add" and [ast.unparse(a) for a in c.args] == [v]]
        early = [type(x).__name__ for s in lp.body for x in ast.walk(s) if isinstance(x, (ast.Break, ast.Return, ast.Raise))]
        guarded = []
        if len(adds) == 1:
            rs = ast.unparse(adds[0].func.value)
            for t, pol in path_condition(lp, adds[0]):
                txt = ast.unparse(t).replace(" ", "")
                if not ((txt == f"{v}notin{rs}" and pol) or (txt == f"{v}in{rs}" and not pol)):
                    guarded.append(ast.unparse(t))
            conts = [x for s in lp.body for x in ast.walk(s) if isinstance(x, ast.Continue)]
            for c in conts:
                if not any((ast.unparse(t).replace(" ", "") == f"{v}in{rs}" and pol) for t, pol in path_condition(lp, c)):
                    guarded.append("continue")
        r.check(len(adds) == 1 and not early and not guarded, rid, f"{un.qualname}#expands-every-element",
                f"the expansion loop of 'a-b' does not add every element (adds: {len(adds)}, early exits: {early}, guards: {guarded}): with overlapping entries such as "
                "'0x10,0x08-0x20' part of a listed range is silently left out", loc=un.loc)


def accepts_domain(m: Model, qual: str, values, param: str | None = None) -> list:
    """Finite-domain evaluation of a range-check helper (e.g. check_sub_function): the values of the domain it refuses."""
    from . import miniterp
    f = m.require_function(qual)
    pname = param or f.params()[0]
    refused = []
    for v in values:
        try:
            miniterp.run_function(f.node, {pname: v}, lambda call, env: "" if ast.unparse(call.func) in ("int_repr", "g_repr", "hex", "repr", "str") else NotImplemented)
        except miniterp.Raised:
            refused.append(v)
    return refused


def bytes_parts(fn_node: ast.AST, expr: ast.expr, _depth: int = 0) -> list[str] | None:
    """The operands, in order, of the bytes value `expr` evaluates to at its use inside fn_node: `a + b` is split, a local name is resolved
    through its straight-line definitions (`x = b""`, `x = a + b`, `x += c`, in position order before the use), b"" contributes nothing.
    None: the value cannot be resolved this way (conditional definitions, loops)."""
    if _depth > 6:
        return None
    if isinstance(expr, ast.BinOp) and isinstance(expr.op, ast.Add):
        a, b = bytes_parts(fn_node, expr.left, _depth + 1), bytes_parts(fn_node, expr.right, _depth + 1)
        return None if a is None or b is None else a + b
    if isinstance(expr, ast.Constant) and expr.value == b"":
        return []
    if isinstance(expr, ast.Name):
        pos = (expr.lineno, expr.col_offset)
        defs = []
        for blk_owner in ast.walk(fn_node):
            for fld in ("body", "orelse", "finalbody"):
                blk = getattr(blk_owner, fld, None)
                if not (isinstance(blk, list) and blk and isinstance(blk[0], ast.stmt)):
                    continue
                for st in blk:
                    tgt = st.targets[0] if isinstance(st, ast.Assign) and len(st.targets) == 1 else (st.target if isinstance(st, (ast.AugAssign, ast.AnnAssign)) else None)
                    if isinstance(tgt, ast.Name) and tgt.id == expr.id and (st.lineno, st.col_offset) < pos:
                        defs.append((st, blk))
        if not defs:
            return [expr.id]  # a parameter or outer name
        if len({id(b) for _, b in defs}) != 1:
            return None
        defs.sort(key=lambda d: (d[0].lineno, d[0].col_offset))
        parts: list[str] | None = None
        for st, _ in defs:
            if isinstance(st, ast.AugAssign):
                if not isinstance(st.op, ast.Add) or parts is None:
                    return None
                more = bytes_parts(fn_node, st.value, _depth + 1)
                if more is None:
                    return None
                parts = parts + more
            else:
                if st.value is None:
                    continue
                parts = bytes_parts(fn_node, st.value, _depth + 1)
                if parts is None:
                    return None
        return parts
    return [ast.unparse(expr)]


_POS_OP = {ast.NotEq: ast.Eq, ast.NotIn: ast.In, ast.IsNot: ast.Is, ast.GtE: ast.Lt, ast.Gt: ast.LtE}


def cnf(expr: ast.expr, pol: bool = True, _budget: list | None = None) -> list[frozenset] | None:
    """Conjunctive normal form of `expr is pol`: a list of clauses, each a frozenset of literals (atom text, polarity). Negations are pushed
    inwards (De Morgan), `!=` / `not in` / `is not` / `>=` / `>` become the positive operator with flipped polarity, so that equivalent
    spellings of one decision (inverted test with swapped branches, guard clause, De Morgan) give the same form. None: too large."""
    from .model import canon_compare
    budget = _budget if _budget is not None else [0]
    budget[0] += 1
    if budget[0] > 400:
        return None
    if isinstance(expr, ast.UnaryOp) and isinstance(expr.op, ast.Not):
        return cnf(expr.operand, not pol, budget)
    if isinstance(expr, ast.BoolOp):
        subs = [cnf(v, pol, budget) for v in expr.values]
        if any(s is None for s in subs):
            return None
        conj = isinstance(expr.op, ast.And) == pol
        if conj:
            return [c for s in subs for c in s]
        out: list[frozenset] = [frozenset()]
        for s in subs:
            out = [a | b for a in out for b in s]
            if len(out) > 64:
                return None
        return out
    if isinstance(expr, ast.Compare) and len(expr.ops) == 1 and type(expr.ops[0]) in _POS_OP:
        import copy
        e2 = copy.deepcopy(expr)
        e2.ops = [_POS_OP[type(expr.ops[0])]()]
        canon_compare(e2)
        return [frozenset({(ast.unparse(e2), not pol)})]
    if isinstance(expr, ast.Constant) and isinstance(expr.value, bool):
        return [] if expr.value == pol else [frozenset()]
    return [frozenset({(ast.unparse(expr), pol)})]


def norm_conds(conds) -> frozenset:
    """Canonical set of (text, polarity) for a conjunction of (test text | ast, polarity) pairs: unit clauses as literals, a disjunctive clause as
    one literal whose text is the sorted ` or `-joined literals (a false literal written `not (...)`)."""
    out: set[tuple[str, bool]] = set()
    for t, v in conds:
        if isinstance(t, str):
            if t.startswith("loop:"):
                out.add((t, v))
                continue
            try:
                e = ast.parse(t, mode="eval").body
            except SyntaxError:
                out.add((t, v))
                continue
        else:
            e = t
        cl = cnf(e, v)
        if cl is None:
            out.add((ast.unparse(e), v))
            continue
        for c in cl:
            if len(c) == 1:
                out.add(next(iter(c)))
            else:
                out.add((" or ".join(sorted(a if p else f"not ({a})" for a, p in c)), True))
    return frozenset(out)


def choice_table(fn_node: ast.AST, var: str, atoms: dict[str, list], oracle=None) -> dict[tuple, str | None]:
    """Which expression is `var` (a local name or a dotted attribute) finally assigned from, per combination of the atom values: the
    assignments `var = e` of the function are taken in position order, each under its path condition (enclosing ifs and guard clauses, decided
    over the atoms); the last one whose condition holds wins. None: no assignment applies (the value the name had before).  Assignments inside
    loops are not ordered by position and make the table undecidable (AnalysisError)."""
    import itertools
    from . import miniterp
    from .model import AnalysisError
    assigns = []
    for n in ast.walk(fn_node):
        if isinstance(n, (ast.FunctionDef, ast.AsyncFunctionDef, ast.Lambda)) and n is not fn_node:
            continue
        if isinstance(n, ast.Assign) and len(n.targets) == 1 and ast.unparse(n.targets[0]) == var:
            assigns.append(n)
        elif isinstance(n, ast.AnnAssign) and n.value is not None and ast.unparse(n.target) == var:
            assigns.append(n)
    assigns.sort(key=lambda n: (n.lineno, n.col_offset))
    table: dict[tuple, str | None] = {}
    keys = list(atoms)

    def mentions(t: ast.expr) -> bool:
        return any((isinstance(x, ast.Name) and x.id in atoms) or (isinstance(x, ast.Attribute) and ast.unparse(x) in atoms) for x in ast.walk(t))
    conds = {id(a): [c for c in path_condition(fn_node, a) if mentions(c[0])] for a in assigns}
    for combo in itertools.product(*(atoms[k] for k in keys)):
        env = dict(zip(keys, combo))
        chosen = None
        for a in assigns:
            if all(bool(miniterp.eval_expr(t, dict(env), oracle)) == pol for t, pol in conds[id(a)]):
                chosen = ast.unparse(a.value)
                # a later assignment reads the earlier value of an atom it overwrites: keep the environment in step for plain constants / atoms
                if var in env:
                    try:
                        env[var] = miniterp.eval_expr(a.value, dict(env), oracle)
                    except AnalysisError:
                        env[var] = ("VALUE-OF", chosen)
        table[tuple(repr(c) if isinstance(c, (dict, list, set)) else c for c in combo)] = chosen
    return table


def subst_locals(fn_node: ast.AST, expr: ast.expr, keep: set[str] | None = None, conditions: bool = False) -> ast.expr:
    """expr with every local name that is assigned exactly once in the function, from a pure attribute chain / name / subscript of one, replaced by
    that definition (an alias such as `echoed = payload.PreviousDiagnosticMessageData`). Names in `keep`, parameters and re-assigned locals stay."""
    import copy
    defs: dict[str, list[ast.expr]] = {}
    for n in ast.walk(fn_node):
        if isinstance(n, ast.Assign) and len(n.targets) == 1 and isinstance(n.targets[0], ast.Name):
            defs.setdefault(n.targets[0].id, []).append(n.value)
        elif isinstance(n, ast.NamedExpr) and isinstance(n.target, ast.Name):
            defs.setdefault(n.target.id, []).append(n.value)
        elif isinstance(n, (ast.AugAssign, ast.AnnAssign, ast.For, ast.withitem)) or (isinstance(n, ast.Assign) and not isinstance(n.targets[0], ast.Name)):
            for x in ast.walk(n.target if hasattr(n, "target") else (n.targets[0] if isinstance(n, ast.Assign) else (n.optional_vars or ast.Pass()))):
                if isinstance(x, ast.Name) and isinstance(x.ctx, ast.Store):
                    defs.setdefault(x.id, []).extend([ast.Constant(value=None)] * 2)

    def chain(e: ast.expr) -> bool:
        return isinstance(e, ast.Name) or (isinstance(e, ast.Attribute) and chain(e.value))
    def cond_expr(e: ast.expr) -> bool:
        # a named condition: comparisons / boolean operators / isinstance / any / all / len over attribute chains and constants (no other calls, no await)
        for x in ast.walk(e):
            if isinstance(x, (ast.Await, ast.NamedExpr, ast.Yield, ast.YieldFrom, ast.Lambda)):
                return False
            if isinstance(x, ast.Call) and ast.unparse(x.func) not in ("isinstance", "any", "all", "len") \
                    and not (isinstance(x.func, ast.Attribute) and x.func.attr in ("values", "keys", "items") and not x.args and not x.keywords):
                return False
        return isinstance(e, (ast.Compare, ast.BoolOp, ast.UnaryOp)) or (isinstance(e, ast.Call) and ast.unparse(e.func) in ("isinstance", "any", "all"))
    alias = {k: v[0] for k, v in defs.items() if len(v) == 1 and k not in (keep or set())
             and ((chain(v[0]) and not isinstance(v[0], ast.Name)) or (conditions and cond_expr(v[0])))}

    class S(ast.NodeTransformer):
        def visit_Name(self, node: ast.Name) -> ast.AST:
            if isinstance(node.ctx, ast.Load) and node.id in alias:
                return ast.copy_location(copy.deepcopy(alias[node.id]), node)
            return node

        def visit_NamedExpr(self, node: ast.NamedExpr) -> ast.AST:
            if isinstance(node.target, ast.Name) and node.target.id in alias:
                return ast.copy_location(copy.deepcopy(alias[node.target.id]), node)
            self.generic_visit(node)
            return node
    return S().visit(copy.deepcopy(expr))
