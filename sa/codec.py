"""Codec driver on top of E4: registry extraction, W∘R analysis per class, comparer."""

from __future__ import annotations

import ast
from dataclasses import dataclass, field
from typing import Any

from .layout import (L, BytesV, ClassV, CondV, ConstV, DictV, Fact, IntV, Interp, Lin, ListV, Loop, NoneV, ObjV,
                     PduV, Raised, Repeat, Seg, State, TupleV, UnknownV, as_const_int, bits_repr, bytes_len,
                     trim_bits)
from .model import AnalysisError, ClassInfo, FuncInfo, Model

SERVICE = "gallia.services.uds.core.service"


# --------------------------------------------------------------------------- registry


@dataclass
class Pair:
    holder: str          # service or service.SubFunction qualname
    service_id: int | None
    sub_function_id: int | None
    request: ClassInfo | None
    response: ClassInfo | None
    holder_cls: ClassInfo | None = None


class Registry:
    """What UDSService._SERVICES / SubFunction holders contain, read from class statements."""

    def __init__(self, m: Model) -> None:
        self.m = m
        self.mod = m.module(SERVICE)
        self.UDSService = m.require_class(f"{SERVICE}.UDSService")
        self.SubFunction = m.require_class(f"{SERVICE}.SubFunction")
        self.Specialized = m.require_class(f"{SERVICE}.SpecializedSubFunctionService")
        self.UDSRequest = m.require_class(f"{SERVICE}.UDSRequest")
        self.UDSResponse = m.require_class(f"{SERVICE}.UDSResponse")
        self.services: dict[int | None, ClassInfo] = {}
        self.pairs: list[Pair] = []
        self._build()

    def _member_class(self, holder: ClassInfo, name: str) -> ClassInfo | None:
        for c in self.m.mro(holder):
            if name in c.class_attrs:
                v = c.class_attrs[name]
                if isinstance(v, ast.Constant) and v.value is None:
                    return None
                r = self.m.resolve_expr(c.module, v, c)
                if isinstance(r, ClassInfo):
                    return r
                raise AnalysisError(f"{holder.qualname}.{name} does not resolve to a class: {ast.unparse(v)}")
        return None

    def _build(self) -> None:
        m = self.m
        for svc in m.subclasses(self.UDSService, strict=True):
            if "service_id" not in svc.keywords:
                raise AnalysisError(f"{svc.qualname}: UDSService subclass without service_id keyword")
            sid = m.class_kw(svc, "service_id")
            # later definitions overwrite earlier ones in _SERVICES (dict assignment order = definition order)
            self.services[sid] = svc
        for sid, svc in self.services.items():
            req = self._member_class(svc, "Request")
            resp = self._member_class(svc, "Response")
            if req is not None or resp is not None:
                self.pairs.append(Pair(svc.qualname, sid, None, req, resp, svc))
            if m.is_subclass(svc, self.Specialized) and svc != self.Specialized:
                for name, nc in svc.nested.items():
                    if m.is_subclass(nc, self.SubFunction):
                        sf = m.class_kw(nc, "sub_function_id")
                        self.pairs.append(Pair(nc.qualname, sid, sf, self._member_class(nc, "Request"),
                                               self._member_class(nc, "Response"), nc))

    def registered_requests(self) -> list[ClassInfo]:
        seen: list[ClassInfo] = []
        for p in self.pairs:
            if p.request is not None and p.request not in seen:
                seen.append(p.request)
        return seen

    def registered_responses(self) -> list[ClassInfo]:
        seen: list[ClassInfo] = []
        for p in self.pairs:
            if p.response is not None and p.response not in seen:
                seen.append(p.response)
        return seen

    def concrete(self, base: ClassInfo) -> list[ClassInfo]:
        return [c for c in self.m.subclasses(base, strict=True)
                if c.module.name == SERVICE and not self.m.is_abstract_class(c)]


# --------------------------------------------------------------------------- W∘R analysis


@dataclass
class Issue:
    kind: str      # byte | width | length | partial-group | const | raise | endian | overflow
    msg: str
    where: str = ""


@dataclass
class PathResult:
    facts: list[Fact]
    accepted: bool
    reject: str = ""
    reject_where: str = ""
    obj_cls: ClassInfo | None = None
    fields: dict[str, Any] = field(default_factory=dict)
    out: BytesV | None = None
    issues: list[Issue] = field(default_factory=list)
    layout: list[str] = field(default_factory=list)     # human-readable segment list
    shape: list[str] = field(default_factory=list)  # tokens for the ISO comparison
    guards: list[Any] = field(default_factory=list)
    len_lo: int = 0
    len_hi: float = float("inf")
    state: State | None = None
    oid: int = 0


@dataclass
class ClassAnalysis:
    cls: ClassInfo
    paths: list[PathResult]

    @property
    def accepted(self) -> list[PathResult]:
        return [p for p in self.paths if p.accepted]


class CodecAnalyser:
    def __init__(self, m: Model) -> None:
        self.m = m
        self.interp = Interp(m)
        self.cache: dict[str, ClassAnalysis] = {}

    def analyse(self, cls: ClassInfo) -> ClassAnalysis:
        if cls.qualname in self.cache:
            return self.cache[cls.qualname]
        m, it = self.m, self.interp
        check = m.resolve_method(cls, "_check_pdu")
        frm = m.resolve_method(cls, "_from_pdu")
        if check is None or frm is None or frm.is_abstract:
            raise AnalysisError(f"{cls.qualname}: no concrete _check_pdu/_from_pdu")
        results: list[PathResult] = []
        st0 = State()
        st0.facts.append(Fact("len", ">=", lin=L - Lin(1), where="non-empty PDU (precondition of every caller)"))
        for st1, v1 in it.call_function(st0, check, [PduV()], {}, self_val=ClassV(cls)):
            if isinstance(v1, Raised):
                results.append(PathResult(st1.facts, False, v1.exc, v1.where))
                continue
            for st2, v2 in it.call_function(st1.clone(), frm, [PduV()], {}, self_val=ClassV(cls)):
                if isinstance(v2, Raised):
                    results.append(PathResult(st2.facts, False, v2.exc, v2.where))
                    continue
                if not isinstance(v2, ObjV):
                    raise AnalysisError(f"{cls.qualname}._from_pdu returns {v2!r}")
                obj = st2.heap[v2.oid]
                wr = m.resolve_method(obj.cls, "pdu")
                if wr is None or wr.is_abstract:
                    raise AnalysisError(f"{obj.cls.qualname}: no concrete pdu property")
                for st3, v3 in it.call_function(st2.clone(), wr, [], {}, self_val=v2):
                    obj3 = st3.heap[v2.oid]
                    lo, hi = st3.len_bounds()
                    pr = PathResult(st3.facts, True, obj_cls=obj3.cls, fields=dict(obj3.fields),
                                    guards=list(st3.guards), len_lo=lo, len_hi=hi, state=st3, oid=v2.oid)
                    if isinstance(v3, Raised):
                        pr.issues.append(Issue("raise", f".pdu raises {v3.exc} for an accepted PDU: {v3.where}", v3.where))
                    elif isinstance(v3, PduV):
                        pr.out = BytesV([Seg(None, "raw", (Lin(0), None))])
                        self.compare(st3, pr)
                    elif isinstance(v3, BytesV):
                        pr.out = v3
                        self.compare(st3, pr)
                    else:
                        pr.issues.append(Issue("raise", f".pdu returns {v3!r}"))
                    results.append(pr)
        ca = ClassAnalysis(cls, results)
        self.cache[cls.qualname] = ca
        return ca

    # ..................................................................... comparer
    def compare(self, st: State, pr: PathResult) -> None:
        off: Lin | None = Lin(0)
        ended = False
        for seg in pr.out.segs:
            if ended:
                if seg.width is not None and seg.width == 0:
                    continue
                pr.issues.append(Issue("length", f"segment {seg} is written after a field that already consumed the rest of the PDU"))
                return
            off, ended = self.compare_seg(st, pr, seg, off, None)
            if off is None and not ended:
                return
        if not ended:
            pr.layout.append(f"end@{off}")
            lo, hi = st.len_bounds()
            if off.is_const and not (lo <= off.const <= hi):
                pr.issues.append(Issue(
                    "length-definite",
                    f"re-encoding writes {off} byte(s) although every PDU accepted on this path has a length in [{lo}, {hi}] "
                    f"(path conditions: {[repr(f) for f in st.facts if f.kind == 'opaque']}): the parsed object never re-encodes to the received bytes"))
            elif not st.len_equals(off):
                pr.issues.append(Issue(
                    "length",
                    f"re-encoding writes {off} byte(s) but the accepted length is not pinned to that "
                    f"(len in [{lo}, {hi}] on this path): longer PDUs are accepted and their trailing bytes dropped"))

    def compare_seg(self, st: State, pr: PathResult, seg: Seg, off: Lin, loopctx: tuple[Loop, Lin] | None) -> tuple[Lin | None, bool]:
        def bad(kind: str, msg: str) -> None:
            pr.issues.append(Issue(kind, f"offset {off}: {msg}"))

        if seg.kind == "const":
            data: bytes = seg.val
            for k, byte in enumerate(data):
                for j in range(8):
                    pin = st.pinned(("p", off + k, j))
                    if pin != (byte >> j) & 1:
                        bad("const", f"constant byte {byte:#04x} written but pdu[{off + k}] is not pinned to it by any check")
                        break
            pr.layout.append(f"{off}:const[{len(data)}]")
            pr.shape.extend("K" for _ in data)
            return off + len(data), False
        if seg.kind == "raw":
            lo, hi = seg.val
            pr.layout.append(f"{off}:raw pdu[{lo}:{'' if hi is None else hi}]")
            pr.shape.append("R*" if hi is None else ("R" + (str((hi - lo).const) if (hi - lo).is_const else "sym")))
            if not (lo == off):
                bad("byte", f"bytes taken from pdu[{lo}:..] are written at offset {off}")
            if hi is None:
                return None, True
            return off + (hi - lo), False
        if seg.kind == "int":
            v: IntV = seg.val
            w = seg.width
            if w is None:
                bad("width", f"integer written with non-linear width ({seg.code})")
                return None, False
            pr.layout.append(f"{off}:int[{w}] {v!r} ({seg.code})")
            if w.is_const and w.const == 1:
                pr.shape.append("K" if as_const_int(v) is not None else "B")
            else:
                pr.shape.append("I" + (str(w.const) if w.is_const else "sym"))
            if seg.endian not in ("big",) and not (w.is_const and w.const == 1):
                bad("endian", f"multi-byte integer written with byte order '{seg.endian}' ({seg.code}); ISO 14229 and from_bytes use big-endian")
            if v.kind == "bits":
                bits = list(v.bits)
                if not w.is_const:
                    bad("width", f"single-byte value {v!r} written with symbolic width {w}")
                    return off + w, False
                nbytes = w.const
                if any(b != 0 for b in bits[8 * nbytes:]):
                    bad("overflow", f"value {v!r} may exceed {nbytes} byte(s)")
                for k in range(nbytes):
                    pos = off + (nbytes - 1 - k)  # big-endian: least significant byte last
                    for j in range(8):
                        idx = 8 * k + j
                        src = bits[idx] if idx < len(bits) else 0
                        want = ("p", pos, j)
                        if src == want:
                            continue
                        if src in (0, 1) and st.pinned(want) == src:
                            continue
                        if src in (0, 1):
                            bad("byte", f"bit {j} of pdu[{pos}] is re-encoded as constant {src} ({seg.code} of {v!r}) but no check pins it")
                        else:
                            bad("byte", f"bit {j} of pdu[{pos}] is re-encoded from {src[0]}du[{src[1]}].{src[2]} ({seg.code} of {v!r})")
                        break
                return off + w, False
            if v.kind == "fb":
                if not (v.lo == off):
                    bad("byte", f"integer parsed from pdu[{v.lo}:{'' if v.hi is None else v.hi}] is written at offset {off}")
                if v.hi is not None:
                    if not ((v.hi - v.lo) == w):
                        bad("width", f"integer parsed from {v.hi - v.lo} byte(s) pdu[{v.lo}:{v.hi}] is written with width {w} ({seg.code})")
                else:
                    if not st.len_equals(v.lo + w):
                        lo_, hi_ = st.len_bounds()
                        bad("unpinned-width", f"integer parsed from all remaining bytes pdu[{v.lo}:] is written with width {w} ({seg.code}) "
                                     f"but the length is not pinned to {v.lo + w} (len in [{lo_}, {hi_}]): other lengths are silently normalised")
                return off + w, False
            bad("byte", f"value {v!r} written here is not derived from the PDU bytes at this position")
            return off + w, False
        if seg.kind == "repeat":
            rep: Repeat = seg.val
            loop = rep.loop
            if loop.var.startswith("d") and loop.stride == 1 and loop.stop == 1 and loop.start == 0:
                # single literal dict entry: inline
                cur: Lin | None = off
                ended = False
                for g in rep.group:
                    if ended:
                        bad("length", "segment after rest-consuming field inside dict entry")
                        return None, True
                    cur, ended = self.compare_seg(st, pr, g, cur, None)
                return cur, ended
            ivar = Lin.sym(loop.var)
            base = off + (ivar - loop.start)
            pr.layout.append(f"{off}:repeat {loop}")
            cur = base
            gw = Lin(0)
            sub = PathResult(pr.facts, True)
            for g in rep.group:
                cur2, ended = self.compare_seg(st, sub, g, cur, (loop, base))
                if ended or cur2 is None:
                    bad("length", f"repeated group contains an unbounded field {g}")
                    pr.issues.extend(sub.issues)
                    return None, True
                gw = gw + (cur2 - cur)
                cur = cur2
            pr.issues.extend(sub.issues)
            pr.layout.extend("  " + x for x in sub.layout)
            pr.shape.append("{")
            pr.shape.extend(sub.shape)
            pr.shape.append("}")
            if not (gw == loop.stride):
                bad("width", f"repeated group is {gw} byte(s) wide but the parser advances by {loop.stride}")
            total = loop.stop - loop.start
            end = off + total
            if not st.len_mod_zero(total, loop.stride) and not (loop.stride == 1):
                pr.issues.append(Issue("partial-group", f"offset {off}: nothing ensures ({total}) is a multiple of the group size {loop.stride}: a truncated last group is parsed and re-encoded differently"))
            if end == L:
                return None, True
            return end, False
        bad("byte", f"unsupported segment {seg}")
        return None, False


# --------------------------------------------------------------------------- field provenance helpers


def field_origin(v: Any) -> str:
    """Canonical text of where a field value comes from on the wire (used to compare matchers)."""
    if isinstance(v, IntV):
        if v.kind == "bits":
            return "bits" + bits_repr(trim_bits(v.bits))
        return repr(v)
    if isinstance(v, BytesV):
        return "bytes" + "".join(repr(s) for s in v.segs)
    if isinstance(v, ListV):
        if v.loop is not None:
            return f"list[{field_origin(v.elem)} for {v.loop}]"
        return f"list{[field_origin(x) for x in (v.items or [])]}"
    if isinstance(v, DictV):
        return f"dict[{field_origin(v.key)}: {field_origin(v.val)} for {v.loop}]"
    if isinstance(v, TupleV):
        return f"tuple{[field_origin(x) for x in v.items]}"
    return repr(v)


def normalised_origin(v: Any) -> str:
    import re as _re
    o = field_origin(v)
    o = _re.sub(r"@\d+", "", o)
    return _re.sub(r"\bi\d+\b", "i", o)


def field_placement(m: Model, r, rid: str, ca: "CodecAnalyser", classes: list[ClassInfo], table: dict[str, dict[str, str]]) -> int:
    """Each named field of the oracle table is decoded from the ISO position on every accepted path that defines it."""
    n = 0
    by_name = {c.name: c for c in classes}
    for cname, fields in sorted(table.items()):
        c = by_name.get(cname)
        if c is None:
            continue
        a = ca.analyse(c)
        for fname, want in fields.items():
            got = set()
            for p in a.accepted:
                v = (p.fields or {}).get(fname)
                if v is None:
                    continue
                o = normalised_origin(v)
                if o != "None":
                    got.add(o)
            if not got:
                raise AnalysisError(f"{c.qualname}: field {fname} of the ISO placement table is not stored by the parsed object")
            n += 1
            r.check(got == {want}, rid, f"{c.qualname}.{fname}#iso-position",
                    f"{fname} is decoded from {sorted(got)}; ISO 14229-1 places it at {want} (a swap made in both the serialiser and the parser still round-trips)", loc=c.loc)
    return n


def request_envelope_rule(m: Model, r, rid: str, reg: "Registry", why: str) -> int:
    """Declared minimal/maximal length of every registered request class admits the ISO 14229-1 envelope of its row."""
    from .oracles import iso14229
    n = 0
    for p in reg.pairs:
        if p.request is None or p.service_id is None:
            continue
        req = p.request
        key = (p.service_id, p.holder.rsplit(".", 1)[-1])
        if key not in iso14229.REQ:
            key = (p.service_id, p.sub_function_id)
        if key not in iso14229.REQ:
            key = (p.service_id, None)
        if key not in iso14229.REQ:
            raise AnalysisError(f"no ISO oracle row for request {req.name} key {(p.service_id, p.sub_function_id)}")
        _, iso_min, iso_max = iso14229.REQ[key]
        mn = m.class_kw(req, "minimal_length")
        mx = m.class_kw(req, "maximal_length")
        n += 1
        r.check(isinstance(mn, int) and mn <= iso_min and (mx is None or (iso_max is not None and mx >= iso_max)), rid, f"{p.holder}#request-envelope",
                f"declared length envelope [{mn}, {mx}] of {req.name} rejects well-formed requests (ISO: [{iso_min}, {iso_max}]): {why}", loc=req.loc)
    return n
