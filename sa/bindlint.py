"""Call-site argument binding rules shared by all properties.

(1) same-name rule: when an argument is a plain name (or self.<name>) that equals the name of a parameter of the resolved callee,
    it must be bound to that parameter.  `connect(port, host)` against `def connect(host, port)` is the classic swapped-argument
    slip; it type-checks for equal types and no test of this repository would notice.
(2) isinstance / issubclass: the second argument denotes types, the first does not.
(3) asyncio.wait_for(awaitable, timeout): the awaitable comes first.
Callees are resolved with the program model (functions, methods through self/cls/super, constructors, dataclass-like classes); a
small table gives the positional parameter names of the external callables this code base uses."""
from __future__ import annotations

import ast

from .model import ClassInfo, FuncInfo, Model, walk_no_nested

EXTERNAL: dict[str, tuple[str, ...]] = {
    "asyncio.open_connection": ("host", "port"),
    "asyncio.wait_for": ("aw", "timeout"),
    "asyncio.start_server": ("client_connected_cb", "host", "port"),
    "shutil.copyfileobj": ("fsrc", "fdst"),
    "int.from_bytes": ("bytes", "byteorder"),
    "gzip.open": ("filename", "mode"),
}


def _annotations_of(m: Model, caller: FuncInfo, call: ast.Call) -> dict[str, str]:
    """Parameter name -> annotation text of the resolved gallia callee (empty when unresolved)."""
    fn = call.func
    callee = None
    if isinstance(fn, ast.Attribute) and isinstance(fn.value, ast.Name) and fn.value.id in ("self", "cls") and caller.cls is not None:
        callee = m.resolve_method(caller.cls, fn.attr)
    elif isinstance(fn, (ast.Name, ast.Attribute)):
        try:
            callee = m.resolve_expr(caller.module, fn, caller.cls)
        except Exception:  # noqa: BLE001
            callee = None
    if isinstance(callee, ClassInfo):
        callee = m.resolve_method(callee, "__init__")
    if isinstance(callee, FuncInfo) and callee.module.name.startswith("gallia"):
        return {k: ast.unparse(v) for k, v in callee.param_annotations().items() if v is not None}
    return {}


def _params_of(m: Model, caller: FuncInfo, call: ast.Call) -> tuple[list[str], str] | None:
    fn = call.func
    txt = ast.unparse(fn)
    if txt in EXTERNAL:
        return list(EXTERNAL[txt]), txt
    callee = None
    if isinstance(fn, ast.Attribute) and isinstance(fn.value, ast.Name) and fn.value.id in ("self", "cls") and caller.cls is not None:
        callee = m.resolve_method(caller.cls, fn.attr)
    elif isinstance(fn, ast.Attribute) and isinstance(fn.value, ast.Call) and ast.unparse(fn.value.func) == "super" and caller.cls is not None:
        callee = m.resolve_method(caller.cls, fn.attr, after=caller.cls)
    elif isinstance(fn, ast.Name) and fn.id == "cls" and caller.cls is not None:
        callee = caller.cls
    else:
        try:
            callee = m.resolve_expr(caller.module, fn, caller.cls)
        except Exception:  # noqa: BLE001
            callee = None
    if isinstance(callee, ClassInfo):
        init = m.resolve_method(callee, "__init__")
        if init is not None and init.module.name.startswith("gallia"):
            callee = init
        else:
            return (list(callee.class_annots), callee.qualname) if callee.class_annots else None
    if isinstance(callee, FuncInfo):
        ps = callee.params()
        if callee.cls is not None and ps and ps[0] in ("self", "cls") and not any(ast.unparse(d) == "staticmethod" for d in callee.node.decorator_list):
            ps = ps[1:]
        return ps, callee.qualname
    return None


def _is_type_expr(m: Model, caller: FuncInfo, e: ast.expr) -> bool | None:
    if isinstance(e, ast.Tuple):
        vals = [_is_type_expr(m, caller, x) for x in e.elts]
        return all(v is True for v in vals) if all(v is not None for v in vals) else None
    if isinstance(e, ast.BinOp) and isinstance(e.op, ast.BitOr):
        a, b = _is_type_expr(m, caller, e.left), _is_type_expr(m, caller, e.right)
        return None if a is None or b is None else (a and b)
    if isinstance(e, (ast.Name, ast.Attribute)):
        t = ast.unparse(e)
        if t in ("int", "str", "bytes", "bytearray", "float", "bool", "list", "dict", "set", "tuple", "type", "Exception", "BaseException", "ConnectionError", "TimeoutError",
                 "OSError", "ValueError", "KeyError", "IndexError"):
            return True
        try:
            r_ = m.resolve_expr(caller.module, e, caller.cls)
        except Exception:  # noqa: BLE001
            r_ = None
        if isinstance(r_, ClassInfo):
            return True
        if isinstance(e, ast.Name) and (e.id in caller.params() or e.id in m.local_names(caller)):
            return False
        return None
    return None


def lint_function(m: Model, f: FuncInfo) -> list[tuple[int, str]]:
    out: list[tuple[int, str]] = []
    # contradiction: `assert X is None` (a stated belief) followed by an unconditional dereference of X in the same block
    body = f.node.body
    for i, st in enumerate(body):
        if isinstance(st, ast.Assert) and isinstance(st.test, ast.Compare) and len(st.test.ops) == 1 and isinstance(st.test.ops[0], ast.Is) \
                and isinstance(st.test.comparators[0], ast.Constant) and st.test.comparators[0].value is None and isinstance(st.test.left, (ast.Name, ast.Attribute)):
            x = ast.unparse(st.test.left)
            for later in body[i + 1:]:
                rebind = [t.lineno for t in ast.walk(later) if isinstance(t, (ast.Assign, ast.AnnAssign)) and ast.unparse(t.targets[0] if isinstance(t, ast.Assign) else t.target) == x]
                deref = [n_.lineno for n_ in ast.walk(later) if isinstance(n_, ast.Attribute) and ast.unparse(n_.value) == x]
                if deref and (not rebind or min(deref) < min(rebind)):
                    out.append((st.lineno, f"`{ast.unparse(st)[:60]}` asserts that {x} is None, and line {min(deref)} dereferences it: one of the two is wrong "
                                           "(the assertion fails on every call, or the dereference raises)"))
                    break
                if rebind:
                    break
    for n in walk_no_nested(f.node):
        if not isinstance(n, ast.Call):
            continue
        txt = ast.unparse(n.func)
        if txt in ("isinstance", "issubclass") and len(n.args) == 2:
            a, b = _is_type_expr(m, f, n.args[0]), _is_type_expr(m, f, n.args[1])
            if a is True and b is not True:
                out.append((n.lineno, f"`{ast.unparse(n)[:70]}`: the object and the type are swapped (TypeError at run time)"))
            continue
        if txt == "asyncio.wait_for" and len(n.args) >= 2 and not isinstance(n.args[0], (ast.Call, ast.Await, ast.Name, ast.Attribute)) :
            out.append((n.lineno, f"`{ast.unparse(n)[:70]}`: the first argument of wait_for is not an awaitable"))
        if txt == "asyncio.wait_for" and len(n.args) >= 2 and isinstance(n.args[1], ast.Call) and isinstance(n.args[0], (ast.Name, ast.Attribute, ast.Constant)):
            out.append((n.lineno, f"`{ast.unparse(n)[:70]}`: awaitable and timeout are swapped"))
        if any(isinstance(a, ast.Starred) for a in n.args):
            continue
        got = _params_of(m, f, n)
        if got is None:
            continue
        params, cq = got
        ann = _annotations_of(m, f, n)
        for i, a in enumerate(n.args):
            if i < len(params) and isinstance(a, ast.Constant) and params[i] in ann:
                t = ann[params[i]].replace(" ", "")
                lit = type(a.value).__name__
                if (lit == "str" and t in ("int", "float", "bytes", "int|None", "bytes|None")) or (lit in ("int", "float") and not isinstance(a.value, bool) and t in ("str", "bytes", "str|None")) \
                        or (lit == "bytes" and t in ("int", "str", "int|None")):
                    out.append((n.lineno, f"`{ast.unparse(n)[:70]}`: a {lit} literal is passed as parameter `{params[i]}: {ann[params[i]]}` of {cq.split('.')[-1]} (arguments out of order)"))
        for i, a in enumerate(n.args):
            nm = a.id if isinstance(a, ast.Name) else (a.attr if isinstance(a, ast.Attribute) and isinstance(a.value, ast.Name) and a.value.id == "self" else None)
            if nm is None or i >= len(params):
                continue
            if nm in params and params[i] != nm and nm not in [k.arg for k in n.keywords]:
                # the slot that carries the same name receives something else: a swap, unless that other value is itself named like this slot
                out.append((n.lineno, f"`{ast.unparse(n)[:70]}`: `{ast.unparse(a)}` is passed as parameter `{params[i]}` of {cq.split('.')[-1]}, which also has a parameter `{nm}`"))
    return out


def apply(m: Model, r, prop: str) -> None:
    """Rule R0 of every check: call-site argument binding inside the property's anchor functions."""
    import fnmatch
    from .anchors import ANCHORS, NEUTRAL_EXTRA
    from .model import AnalysisError
    pats = ANCHORS.get(prop, []) + NEUTRAL_EXTRA.get(prop, [])
    r.rule("R0", "call sites in the property's anchor functions bind every argument to the parameter it names: no swapped arguments, "
                 "isinstance(object, type) and wait_for(awaitable, timeout) in that order; no `assert X is None` contradicted by a dereference of X", floor=1)
    n = 0
    for f in m.functions():
        if not any(fnmatch.fnmatchcase(f.qualname, p_) for p_ in pats):
            continue
        n += 1
        hits = lint_function(m, f)
        r.check(not hits, "R0", f"{f.qualname}#argument-binding", "; ".join(h for _, h in hits[:3]), loc=f"{f.module.relpath}:{hits[0][0]}" if hits else f.loc)
    if n < 1:
        raise AnalysisError(f"{prop}: none of the anchor functions exists any more ({pats})")
