"""Behaviour-preserving normalisations applied to every parsed module before the rules see it.

The rules anchor on the functions, classes and tables the properties name. A maintainer's "no functional change" edit must not change what
they see, so the canonical view is closed under the introduction of *new private names*:

  N1  a module-level (or class-level) constant `_NAME = <literal>` the rules do not know by name is substituted at its uses;
  N2  a private helper function / method the rules do not know by name, with exactly one call site in the package, is inlined at that site
      (extract-helper refactorings) and its definition dropped;
  N3  `(a, b) != (x, y)` -> `a != x or b != y`, `(a, b) == (x, y)` -> `a == x and b == y` (pure operands);
  N4  `x if x else y` -> `x or y` (pure x).

"Known by name" = the identifier occurs in the text of the checker itself (checks/, sa/, oracles/): those are the anchors and stay untouched.
Every transformation preserves behaviour; where its side conditions cannot be established it is simply not applied (the rules then see the
code as written and may stop with an analysis error, never with a verdict that depends on the spelling).
"""
from __future__ import annotations

import ast
import copy
import re
from pathlib import Path

_VERIF = Path(__file__).resolve().parent.parent
_known_cache: set[str] | None = None


def known_names() -> set[str]:
    global _known_cache
    if _known_cache is None:
        names: set[str] = set()
        for d in ("checks", "sa", "oracles"):
            for p in (_VERIF / d).glob("*.py"):
                if p.name == "normalise.py":
                    continue
                names |= set(re.findall(r"[A-Za-z_][A-Za-z0-9_]*", p.read_text(encoding="utf-8")))
        _known_cache = names
    return _known_cache


def _pure(e: ast.expr) -> bool:
    return not any(isinstance(x, (ast.Call, ast.Await, ast.NamedExpr, ast.Yield, ast.YieldFrom)) for x in ast.walk(e))


def _literal(e: ast.expr) -> bool:
    if isinstance(e, ast.Constant) and (e.value is None or isinstance(e.value, (int, float, str, bytes, bool))):
        return True
    if isinstance(e, ast.UnaryOp) and isinstance(e.op, ast.USub) and isinstance(e.operand, ast.Constant) and isinstance(e.operand.value, (int, float)):
        return True
    if isinstance(e, ast.Tuple):
        return all(_literal(x) for x in e.elts)
    return False


def _chain(e: ast.expr) -> bool:
    return isinstance(e, ast.Name) or (isinstance(e, ast.Attribute) and _chain(e.value))


def _table_value(val: ast.expr, consts: dict[str, ast.expr]) -> ast.expr | None:
    """A module-level table: a list / tuple of literals and dotted references, or the concatenation of such tables (earlier ones by name)."""
    if isinstance(val, (ast.List, ast.Tuple)) and all(_literal(x) or (_chain(x) and not isinstance(x, ast.Name)) for x in val.elts):
        return val
    if isinstance(val, ast.Name) and val.id in consts and isinstance(consts[val.id], (ast.List, ast.Tuple)):
        return consts[val.id]
    if isinstance(val, ast.BinOp) and isinstance(val.op, ast.Add):
        a, b = _table_value(val.left, consts), _table_value(val.right, consts)
        if a is not None and b is not None and type(a) is type(b):
            return ast.copy_location(type(a)(elts=list(a.elts) + list(b.elts), ctx=ast.Load()), val)
    return None


_CONST_NAME = re.compile(r"^_?[A-Z][A-Z0-9_]*$")


# ------------------------------------------------------------------------------------------------ N3 / N4
class _Exprs(ast.NodeTransformer):
    def visit_Compare(self, node: ast.Compare) -> ast.AST:
        self.generic_visit(node)
        if len(node.ops) == 1 and isinstance(node.ops[0], (ast.Eq, ast.NotEq)) and isinstance(node.left, ast.Tuple) and isinstance(node.comparators[0], ast.Tuple):
            a, b = node.left.elts, node.comparators[0].elts
            if len(a) == len(b) >= 2 and all(_pure(x) and not isinstance(x, ast.Starred) for x in a + b):
                parts = [ast.copy_location(ast.Compare(left=x, ops=[type(node.ops[0])()], comparators=[y]), node) for x, y in zip(a, b)]
                return ast.copy_location(ast.BoolOp(op=ast.And() if isinstance(node.ops[0], ast.Eq) else ast.Or(), values=parts), node)
        return node

    def visit_BinOp(self, node: ast.BinOp) -> ast.AST:
        self.generic_visit(node)
        # integers: x & (2**k - 1) is x % 2**k  (the operand of `&` with an int constant is an int)
        if isinstance(node.op, ast.BitAnd):
            for a, b in ((node.left, node.right), (node.right, node.left)):
                if isinstance(b, ast.Constant) and type(b.value) is int and b.value > 0 and (b.value + 1) & b.value == 0:
                    return ast.copy_location(ast.BinOp(left=a, op=ast.Mod(), right=ast.copy_location(ast.Constant(value=b.value + 1), b)), node)
        # x >> k is x // 2**k,  x << k is x * 2**k  (int constants k)
        if isinstance(node.op, (ast.RShift, ast.LShift)) and isinstance(node.right, ast.Constant) and type(node.right.value) is int and 0 < node.right.value < 63:
            op = ast.FloorDiv() if isinstance(node.op, ast.RShift) else ast.Mult()
            return ast.copy_location(ast.BinOp(left=node.left, op=op, right=ast.copy_location(ast.Constant(value=1 << node.right.value), node.right)), node)
        # a ** b of int constants is its value
        if isinstance(node.op, ast.Pow) and isinstance(node.left, ast.Constant) and isinstance(node.right, ast.Constant) and type(node.left.value) is int \
                and type(node.right.value) is int and 0 <= node.right.value < 64 and abs(node.left.value) <= 16:
            return ast.copy_location(ast.Constant(value=node.left.value ** node.right.value), node)
        return node

    def visit_Call(self, node: ast.Call) -> ast.AST:
        self.generic_visit(node)
        # f(*(a, b), c)  ->  f(a, b, c)   (a starred tuple / list display is its elements)
        if any(isinstance(a, ast.Starred) and isinstance(a.value, (ast.Tuple, ast.List)) and not any(isinstance(x, ast.Starred) for x in a.value.elts) for a in node.args):
            new_args: list[ast.expr] = []
            for a in node.args:
                if isinstance(a, ast.Starred) and isinstance(a.value, (ast.Tuple, ast.List)) and not any(isinstance(x, ast.Starred) for x in a.value.elts):
                    new_args += list(a.value.elts)
                else:
                    new_args.append(a)
            node.args = new_args
        return node

    def _flat(self, node):
        # [*(a, b), c]  ->  [a, b, c]
        self.generic_visit(node)
        if any(isinstance(e, ast.Starred) and isinstance(e.value, (ast.Tuple, ast.List)) and not any(isinstance(x, ast.Starred) for x in e.value.elts) for e in node.elts) \
                and isinstance(node.ctx, ast.Load):
            new_elts: list[ast.expr] = []
            for e in node.elts:
                if isinstance(e, ast.Starred) and isinstance(e.value, (ast.Tuple, ast.List)) and not any(isinstance(x, ast.Starred) for x in e.value.elts):
                    new_elts += list(e.value.elts)
                else:
                    new_elts.append(e)
            node.elts = new_elts
        return node

    visit_List = _flat
    visit_Tuple = _flat

    def visit_UnaryOp(self, node: ast.UnaryOp) -> ast.AST:
        self.generic_visit(node)
        # not (x % k)  ->  x % k == 0   (numbers)
        if isinstance(node.op, ast.Not) and isinstance(node.operand, ast.BinOp) and isinstance(node.operand.op, ast.Mod) and isinstance(node.operand.right, ast.Constant) \
                and type(node.operand.right.value) is int and node.operand.right.value > 0:
            return ast.copy_location(ast.Compare(left=node.operand, ops=[ast.Eq()], comparators=[ast.copy_location(ast.Constant(value=0), node)]), node)
        return node

    def visit_IfExp(self, node: ast.IfExp) -> ast.AST:
        self.generic_visit(node)
        # d[k] if k in d else x  ->  d.get(k) / d.get(k, x)   (pure d, k, x; the mapping protocol of dict)
        t = node.test
        if isinstance(t, ast.Compare) and len(t.ops) == 1 and isinstance(t.ops[0], (ast.In, ast.NotIn)) and _pure(t.left) and _pure(t.comparators[0]) and _pure(node.orelse) and _pure(node.body):
            hit, miss = (node.body, node.orelse) if isinstance(t.ops[0], ast.In) else (node.orelse, node.body)
            if isinstance(hit, ast.Subscript) and not isinstance(hit.slice, ast.Slice) and ast.dump(hit.value) == ast.dump(t.comparators[0]) and ast.dump(hit.slice) == ast.dump(t.left) \
                    and (_literal(miss) or _chain(miss)):
                args = [t.left] + ([] if isinstance(miss, ast.Constant) and miss.value is None else [miss])
                return ast.copy_location(ast.Call(func=ast.Attribute(value=t.comparators[0], attr="get", ctx=ast.Load()), args=args, keywords=[]), node)
        if _pure(node.test) and ast.dump(node.test) == ast.dump(node.body):
            return ast.copy_location(ast.BoolOp(op=ast.Or(), values=[node.body, node.orelse]), node)
        return node


# ------------------------------------------------------------------------------------------------ N1
def _inline_constants(tree: ast.Module, known: set[str]) -> None:
    stores: dict[str, int] = {}
    for n in ast.walk(tree):
        if isinstance(n, ast.Name) and isinstance(n.ctx, (ast.Store, ast.Del)):
            stores[n.id] = stores.get(n.id, 0) + 1
        elif isinstance(n, (ast.Global, ast.Nonlocal)):
            for x in n.names:
                stores[x] = stores.get(x, 0) + 2
        elif isinstance(n, (ast.FunctionDef, ast.AsyncFunctionDef)):
            for a in n.args.args + n.args.kwonlyargs + n.args.posonlyargs + [x for x in (n.args.vararg, n.args.kwarg) if x]:
                stores[a.arg] = stores.get(a.arg, 0) + 2
        elif isinstance(n, ast.alias):
            nm = (n.asname or n.name).split(".")[0]
            stores[nm] = stores.get(nm, 0) + 2
    consts: dict[str, ast.expr] = {}
    for st in tree.body:
        tgt = val = None
        if isinstance(st, ast.Assign) and len(st.targets) == 1:
            tgt, val = st.targets[0], st.value
        elif isinstance(st, ast.AnnAssign) and st.value is not None:
            tgt, val = st.target, st.value
        if isinstance(tgt, ast.Name) and _CONST_NAME.match(tgt.id) and tgt.id not in known and stores.get(tgt.id) == 1:
            if _literal(val):
                consts[tgt.id] = val
            else:
                tbl = _table_value(val, consts)
                if tbl is not None:
                    consts[tgt.id] = tbl
    cls_consts: dict[ast.ClassDef, dict[str, ast.expr]] = {}
    stored_attrs = {n.attr for n in ast.walk(tree) if isinstance(n, ast.Attribute) and isinstance(n.ctx, (ast.Store, ast.Del))}
    for c in [n for n in ast.walk(tree) if isinstance(n, ast.ClassDef)]:
        d: dict[str, ast.expr] = {}
        for st in c.body:
            tgt = val = None
            if isinstance(st, ast.Assign) and len(st.targets) == 1:
                tgt, val = st.targets[0], st.value
            elif isinstance(st, ast.AnnAssign) and st.value is not None:
                tgt, val = st.target, st.value
            if isinstance(tgt, ast.Name) and _CONST_NAME.match(tgt.id) and tgt.id.startswith("_") and tgt.id not in known and _literal(val):
                d[tgt.id] = val
        # never assigned through self./cls. anywhere in the module
        for k_ in [k_ for k_ in d if k_ in stored_attrs]:
            d.pop(k_)
        if d:
            cls_consts[c] = d

    class Sub(ast.NodeTransformer):
        def __init__(self) -> None:
            self.cls: list[dict[str, ast.expr]] = []

        def visit_ClassDef(self, node: ast.ClassDef) -> ast.AST:
            self.cls.append(cls_consts.get(node, {}))
            self.generic_visit(node)
            self.cls.pop()
            return node

        def visit_Name(self, node: ast.Name) -> ast.AST:
            if isinstance(node.ctx, ast.Load) and node.id in consts:
                return ast.copy_location(copy.deepcopy(consts[node.id]), node)
            return node

        def visit_Attribute(self, node: ast.Attribute) -> ast.AST:
            self.generic_visit(node)
            if isinstance(node.ctx, ast.Load) and self.cls and node.attr in self.cls[-1] and isinstance(node.value, ast.Name) and node.value.id in ("self", "cls"):
                return ast.copy_location(copy.deepcopy(self.cls[-1][node.attr]), node)
            return node

    if consts or cls_consts:
        Sub().visit(tree)


# ------------------------------------------------------------------------------------------------ N2
def _bodies(node: ast.AST):
    for fld in ("body", "orelse", "finalbody"):
        val = getattr(node, fld, None)
        if isinstance(val, list) and val and isinstance(val[0], ast.stmt):
            yield val
    if isinstance(node, ast.Try):
        for h in node.handlers:
            yield h.body
    if isinstance(node, ast.Match):
        for c in node.cases:
            yield c.body


def _call_of(e: ast.expr | None) -> ast.Call | None:
    if isinstance(e, ast.Await):
        e = e.value
    return e if isinstance(e, ast.Call) else None


def _callee_name(c: ast.Call) -> tuple[str, str | None] | None:
    """(helper name, receiver) for `_h(...)`, `self._h(...)`, `cls._h(...)`."""
    if isinstance(c.func, ast.Name):
        return c.func.id, None
    if isinstance(c.func, ast.Attribute) and isinstance(c.func.value, ast.Name):
        return c.func.attr, c.func.value.id
    return None


def _simple_arg(e: ast.expr) -> bool:
    if isinstance(e, (ast.Name, ast.Constant)):
        return True
    if isinstance(e, ast.Attribute):
        return _simple_arg(e.value)
    return False


class _Rename(ast.NodeTransformer):
    def __init__(self, names: dict[str, ast.expr]) -> None:
        self.names = names

    def visit_Name(self, node: ast.Name) -> ast.AST:
        if node.id in self.names:
            new = self.names[node.id]
            if isinstance(node.ctx, ast.Load) or isinstance(new, ast.Name):
                out = copy.deepcopy(new)
                if isinstance(out, ast.Name):
                    out.ctx = node.ctx
                return ast.copy_location(out, node)
        return node


def _returns(fn: ast.AST) -> list[ast.Return]:
    out = []
    stack = list(ast.iter_child_nodes(fn))
    while stack:
        n = stack.pop()
        if isinstance(n, (ast.FunctionDef, ast.AsyncFunctionDef, ast.Lambda, ast.ClassDef)):
            continue
        if isinstance(n, ast.Return):
            out.append(n)
        stack.extend(ast.iter_child_nodes(n))
    return out


def _inline_helpers(trees: dict[str, ast.Module], known: set[str]) -> None:
    # how often is each private name mentioned anywhere in the package?
    mentions: dict[str, int] = {}
    for t in trees.values():
        for n in ast.walk(t):
            if isinstance(n, ast.Name) and n.id.startswith("_"):
                mentions[n.id] = mentions.get(n.id, 0) + 1
            elif isinstance(n, ast.Attribute) and n.attr.startswith("_"):
                mentions[n.attr] = mentions.get(n.attr, 0) + 1
            elif isinstance(n, ast.Constant) and isinstance(n.value, str) and n.value.startswith("_") and n.value.isidentifier():
                mentions[n.value] = mentions.get(n.value, 0) + 1
    for tree in trees.values():
        for _round in range(3):
            if not _inline_round(tree, known, mentions):
                break


def _inline_round(tree: ast.Module, known: set[str], mentions: dict[str, int]) -> bool:
    defs: dict[str, list[tuple[list[ast.stmt], ast.AST, ast.ClassDef | None]]] = {}

    def collect(body: list[ast.stmt], cls: ast.ClassDef | None) -> None:
        for st in body:
            if isinstance(st, (ast.FunctionDef, ast.AsyncFunctionDef)):
                defs.setdefault(st.name, []).append((body, st, cls))
            elif isinstance(st, ast.ClassDef):
                collect(st.body, st)
    collect(tree.body, None)
    cands: dict[str, tuple[list[ast.stmt], ast.AST, ast.ClassDef | None, str]] = {}
    for name, ds in defs.items():
        if len(ds) != 1 or not name.startswith("_") or name.startswith("__") or name in known or not 1 <= mentions.get(name, 0) <= 4:
            continue
        body, fn, cls = ds[0]
        decos = [ast.unparse(d) for d in fn.decorator_list]
        if any(d not in ("staticmethod", "classmethod") for d in decos):
            continue
        kind = "static" if "staticmethod" in decos else ("class" if "classmethod" in decos else ("method" if cls is not None else "function"))
        if any(isinstance(n, (ast.Yield, ast.YieldFrom, ast.FunctionDef, ast.AsyncFunctionDef, ast.Lambda, ast.ClassDef, ast.Global, ast.Nonlocal)) for n in ast.walk(fn) if n is not fn):
            continue
        if any(isinstance(n, ast.Name) and n.id == name for n in ast.walk(fn)) or any(isinstance(n, ast.Attribute) and n.attr == name for n in ast.walk(fn)):
            continue
        if fn.args.vararg or fn.args.kwarg or fn.args.posonlyargs:
            continue
        cands[name] = (body, fn, cls, kind)
    if not cands:
        return False
    def enclosing_functions(node: ast.AST, cls: ast.ClassDef | None):
        for st in getattr(node, "body", []):
            if isinstance(st, (ast.FunctionDef, ast.AsyncFunctionDef)):
                yield st, cls
            elif isinstance(st, ast.ClassDef):
                yield from enclosing_functions(st, st)

    # every call site of a candidate must be a statement this pass can replace; otherwise the helper stays as it is
    sites: dict[str, list[tuple[list[ast.stmt], ast.stmt, list[ast.stmt]]]] = {}
    for caller, ccls in list(enclosing_functions(tree, None)):
        if caller.name in cands:
            continue
        caller_locals = {n.id for n in ast.walk(caller) if isinstance(n, ast.Name)} | {a.arg for a in caller.args.args + caller.args.kwonlyargs}
        stack: list[list[ast.stmt]] = [caller.body]
        while stack:
            body = stack.pop()
            for st in body:
                repl = _try_inline(st, cands, caller, ccls, caller_locals)
                if repl is not None:
                    sites.setdefault(repl[0], []).append((body, st, repl[1]))
                if not isinstance(st, (ast.FunctionDef, ast.AsyncFunctionDef, ast.ClassDef)):
                    stack.extend(_bodies(st))
    changed = False
    for name, lst in sites.items():
        if len(lst) != mentions.get(name, 0) or len(lst) > 4:
            continue
        for body, st, new_stmts in lst:
            k = next(i_ for i_, x in enumerate(body) if x is st)
            body[k:k + 1] = new_stmts
        dbody, dfn, _c, _k = cands[name]
        dbody.remove(dfn)
        if not dbody:
            dbody.append(ast.copy_location(ast.Pass(), dfn))
        changed = True
    if changed:
        ast.fix_missing_locations(tree)
    return changed


def _terminates(block: list[ast.stmt]) -> bool:
    if not block:
        return False
    last = block[-1]
    if isinstance(last, (ast.Return, ast.Raise)):
        return True
    if isinstance(last, ast.If):
        return _terminates(last.body) and _terminates(last.orelse)
    return False


def _has_return(nodes: list[ast.stmt]) -> bool:
    return any(isinstance(x, ast.Return) for n in nodes for x in ast.walk(n))


def _tail_convert(stmts: list[ast.stmt], mk) -> list[ast.stmt] | None:
    """Rewrite a statement list whose `return`s all sit in tail position of an if/else tree: `return e` -> mk(e); None if a return sits
    inside a loop / try / with / match (not convertible)."""
    for i, s in enumerate(stmts):
        if not _has_return([s]):
            continue
        prefix = stmts[:i]
        if isinstance(s, ast.Return):
            return prefix + mk(s.value, s)
        if isinstance(s, ast.If):
            rest = stmts[i + 1:]

            def branch(block: list[ast.stmt]) -> list[ast.stmt] | None:
                if _terminates(block):
                    return _tail_convert(block, mk) if _has_return(block) else block
                seq = block + rest
                if not _has_return(seq):
                    return seq
                return _tail_convert(seq, mk)
            b, e = branch(s.body), branch(s.orelse)
            if b is None or e is None:
                return None
            new_if = ast.copy_location(ast.If(test=s.test, body=b or [ast.copy_location(ast.Pass(), s)], orelse=e), s)
            return prefix + [new_if]
        return None
    return list(stmts)


def _bind(call: ast.Call, fn: ast.AST, kind: str, recv: str | None) -> dict[str, ast.expr] | None:
    params = [a.arg for a in fn.args.args]
    binding: dict[str, ast.expr] = {}
    if kind in ("method", "class"):
        if recv is None or not params:
            return None
        if kind == "method" and recv != "self":
            return None
        if kind == "class" and recv != "cls":
            return None
        binding[params[0]] = ast.Name(id=recv, ctx=ast.Load())
        params = params[1:]
    elif kind == "function" and recv is not None:
        return None
    elif kind == "static" and recv is None:
        return None
    if any(isinstance(a, ast.Starred) for a in call.args) or any(k.arg is None for k in call.keywords) or len(call.args) > len(params):
        return None
    for p, a in zip(params, call.args):
        binding[p] = a
    kwonly = [a.arg for a in fn.args.kwonlyargs]
    for k in call.keywords:
        if k.arg in binding or k.arg not in params + kwonly:
            return None
        binding[k.arg] = k.value
    defaults = dict(zip(reversed([a.arg for a in fn.args.args]), reversed(fn.args.defaults)))
    for a, d in zip(fn.args.kwonlyargs, fn.args.kw_defaults):
        if d is not None:
            defaults[a.arg] = d
    for p in params + kwonly:
        if p not in binding:
            if p not in defaults or not _literal(defaults[p]):
                return None
            binding[p] = defaults[p]
    return binding


def _try_inline(st: ast.stmt, cands, caller, ccls, caller_locals) -> tuple[str, list[ast.stmt]] | None:
    form = None
    call = None
    if isinstance(st, ast.Return):
        call, form = _call_of(st.value), "return"
    elif isinstance(st, ast.Expr):
        call, form = _call_of(st.value), "expr"
    elif isinstance(st, ast.Assign) and len(st.targets) == 1 and isinstance(st.targets[0], (ast.Name, ast.Attribute, ast.Tuple)):
        call, form = _call_of(st.value), "assign"
    elif isinstance(st, ast.AnnAssign) and st.value is not None and isinstance(st.target, ast.Name):
        call, form = _call_of(st.value), "assign"
    elif isinstance(st, ast.If):
        # `if helper(...):` / `if not helper(...):` - the helper's returns select the branch
        t_ = st.test.operand if isinstance(st.test, ast.UnaryOp) and isinstance(st.test.op, ast.Not) else st.test
        call, form = _call_of(t_), "if"
    if call is None:
        return None
    cn = _callee_name(call)
    if cn is None or cn[0] not in cands:
        return None
    name, recv = cn
    _dbody, fn, dcls, kind = cands[name]
    if dcls is not None and dcls is not ccls:
        return None
    if form == "if":
        t_ = st.test.operand if isinstance(st.test, ast.UnaryOp) and isinstance(st.test.op, ast.Not) else st.test
        awaited = isinstance(t_, ast.Await)
    else:
        awaited = isinstance(getattr(st, "value", None), ast.Await)
    if isinstance(fn, ast.AsyncFunctionDef) != awaited:
        return None
    if isinstance(fn, ast.AsyncFunctionDef) and not isinstance(caller, ast.AsyncFunctionDef):
        return None
    binding = _bind(call, fn, kind, recv)
    if binding is None:
        return None
    rets = _returns(fn)
    body = [s for s in fn.body if not (isinstance(s, ast.Expr) and isinstance(s.value, ast.Constant) and isinstance(s.value.value, str))]
    if not body:
        return None
    tail_form = False
    if form == "if":
        if not rets or any(r.value is None for r in rets) or _tail_convert(body, lambda v, at: [ast.copy_location(ast.Pass(), at)]) is None:
            return None
        tail_form = True
    elif form != "return":
        # the helper must fall through: its only return (if any) is the last statement - or every return sits in tail position of an
        # if/else tree, in which case each `return e` becomes the assignment / nothing and the tree is kept
        if any(r is not body[-1] for r in rets):
            if _tail_convert(body, lambda v, at: [ast.copy_location(ast.Pass(), at)]) is None:
                return None
            tail_form = True
        if form == "assign" and not (rets and all(r.value is not None for r in rets)):
            return None
    # names: parameters assigned inside the helper or bound to non-simple arguments get a local of their own
    assigned = {n.id for n in ast.walk(fn) if isinstance(n, ast.Name) and isinstance(n.ctx, (ast.Store, ast.Del))}
    sub: dict[str, ast.expr] = {}
    pre: list[ast.stmt] = []
    for p, a in binding.items():
        uses = sum(1 for n in ast.walk(fn) if isinstance(n, ast.Name) and n.id == p)
        if p not in assigned and (_simple_arg(a) or _literal(a)):
            sub[p] = a
        else:
            local = p if p not in caller_locals else f"{p}__{name.strip('_')}"
            pre.append(ast.copy_location(ast.Assign(targets=[ast.Name(id=local, ctx=ast.Store())], value=copy.deepcopy(a)), st))
            sub[p] = ast.Name(id=local, ctx=ast.Load())
            del uses
    for v in assigned - set(binding):
        if v in caller_locals:
            sub[v] = ast.Name(id=f"{v}__{name.strip('_')}", ctx=ast.Load())
    # `t = helper(...)` where the helper returns one of its own locals: that local is the caller's t (no alias left behind)
    if form == "assign" and isinstance(st, (ast.Assign, ast.AnnAssign)):
        tgt_ = st.targets[0] if isinstance(st, ast.Assign) else st.target
        rv_ = {r_.value.id for r_ in rets if isinstance(r_.value, ast.Name)}
        if isinstance(tgt_, ast.Name) and len(rv_) == 1 and all(isinstance(r_.value, ast.Name) for r_ in rets):
            v_ = next(iter(rv_))
            clash = any(isinstance(x, ast.Name) and x.id == tgt_.id for x in ast.walk(fn)) and v_ != tgt_.id
            if v_ in assigned and v_ not in binding and not clash:
                sub[v_] = ast.Name(id=tgt_.id, ctx=ast.Load())
    new_body = [_Rename(sub).visit(copy.deepcopy(s)) for s in body]

    def mk_assign(value: ast.expr | None, at: ast.AST) -> list[ast.stmt]:
        if form == "if":
            negated = isinstance(st.test, ast.UnaryOp)
            then_, else_ = (st.orelse, st.body) if negated else (st.body, st.orelse)
            if isinstance(value, ast.Constant) and isinstance(value.value, bool):
                chosen = then_ if value.value else else_
                return copy.deepcopy(chosen) or [ast.copy_location(ast.Pass(), at)]
            return [ast.copy_location(ast.If(test=value, body=copy.deepcopy(then_) or [ast.copy_location(ast.Pass(), at)], orelse=copy.deepcopy(else_)), at)]
        if form == "expr":
            return [ast.copy_location(ast.Expr(value=value), at)] if value is not None and not _pure(value) else []
        if isinstance(st, ast.Assign):
            return [ast.copy_location(ast.Assign(targets=copy.deepcopy(st.targets), value=value), st)]
        return [ast.copy_location(ast.AnnAssign(target=copy.deepcopy(st.target), annotation=st.annotation, value=value, simple=st.simple), st)]
    if form == "return":
        out = pre + new_body
        if not isinstance(new_body[-1], (ast.Return, ast.Raise)):
            out.append(ast.copy_location(ast.Return(value=None), st))
    elif tail_form:
        conv = _tail_convert(new_body, mk_assign)
        if conv is None:
            return None
        out = pre + conv
    elif form == "expr":
        if rets:
            last = new_body.pop()
            new_body += mk_assign(last.value, last)
        out = pre + new_body
    else:
        last = new_body.pop()
        out = pre + new_body + mk_assign(last.value, last)
    out = [s_ for s_ in out if not (isinstance(s_, ast.Assign) and len(s_.targets) == 1 and isinstance(s_.targets[0], ast.Name) and isinstance(s_.value, ast.Name)
                                  and s_.targets[0].id == s_.value.id)]
    if not out:
        out = [ast.copy_location(ast.Pass(), st)]
    # inlined code is positioned at the call site (the rules order constructs by position); source order inside the block is kept in the column
    k = 0

    def place(n: ast.AST) -> None:
        nonlocal k
        if isinstance(n, (ast.expr, ast.stmt, ast.excepthandler, ast.arg, ast.keyword, ast.match_case, ast.pattern)):
            # a fractional line number: the call site's line for every report, source order inside the inlined block for rules that compare positions
            n.lineno = n.end_lineno = int(st.lineno) + min(k, 9999) * 1e-4
            n.col_offset = n.end_col_offset = st.col_offset + k
            k += 1
        for c in ast.iter_child_nodes(n):
            place(c)
    for s_ in out:
        place(s_)
    return name, out


# ------------------------------------------------------------------------------------------------ N16
def _struct_objects(tree: ast.Module, known: set[str]) -> None:
    """A module-level `_S = struct.Struct(<literal format>)` the rules do not know by name: `_S.pack(a, b)` is `struct.pack(fmt, a, b)`, `_S.unpack(x)` is
    `struct.unpack(fmt, x)`, `_S.size` is `struct.calcsize(fmt)` (compiled formats are a spelling of the same codec)."""
    fmts: dict[str, ast.expr] = {}
    for st in tree.body:
        if isinstance(st, ast.Assign) and len(st.targets) == 1 and isinstance(st.targets[0], ast.Name) and isinstance(st.value, ast.Call) \
                and ast.unparse(st.value.func) in ("struct.Struct", "Struct") and len(st.value.args) == 1 and isinstance(st.value.args[0], ast.Constant) \
                and isinstance(st.value.args[0].value, (str, bytes)) and st.targets[0].id not in known:
            fmts[st.targets[0].id] = st.value.args[0]
    if not fmts:
        return
    stores: dict[str, int] = {}
    for n in ast.walk(tree):
        if isinstance(n, ast.Name) and isinstance(n.ctx, (ast.Store, ast.Del)):
            stores[n.id] = stores.get(n.id, 0) + 1
    fmts = {k: v for k, v in fmts.items() if stores.get(k) == 1}

    class T(ast.NodeTransformer):
        def visit_Call(self, node: ast.Call) -> ast.AST:
            self.generic_visit(node)
            f = node.func
            if isinstance(f, ast.Attribute) and isinstance(f.value, ast.Name) and f.value.id in fmts and f.attr in ("pack", "unpack", "unpack_from", "pack_into", "iter_unpack"):
                node.func = ast.copy_location(ast.Attribute(value=ast.copy_location(ast.Name(id="struct", ctx=ast.Load()), f), attr=f.attr, ctx=ast.Load()), f)
                node.args = [copy.deepcopy(fmts[f.value.id])] + node.args
            return node

        def visit_Attribute(self, node: ast.Attribute) -> ast.AST:
            self.generic_visit(node)
            if isinstance(node.value, ast.Name) and node.value.id in fmts and node.attr == "size" and isinstance(node.ctx, ast.Load):
                return ast.copy_location(ast.Call(func=ast.Attribute(value=ast.Name(id="struct", ctx=ast.Load()), attr="calcsize", ctx=ast.Load()),
                                                  args=[copy.deepcopy(fmts[node.value.id])], keywords=[]), node)
            return node
    T().visit(tree)


# ------------------------------------------------------------------------------------------------ N15
class _Suppress(ast.NodeTransformer):
    """`with suppress(E1, E2): body`  ->  `try: body  except (E1, E2): pass`  (contextlib.suppress)."""

    def visit_With(self, node: ast.With) -> ast.AST:
        self.generic_visit(node)
        if len(node.items) == 1 and node.items[0].optional_vars is None and isinstance(node.items[0].context_expr, ast.Call):
            c = node.items[0].context_expr
            if ast.unparse(c.func) in ("suppress", "contextlib.suppress") and c.args and not c.keywords and all(_chain(a) for a in c.args):
                typ = c.args[0] if len(c.args) == 1 else ast.copy_location(ast.Tuple(elts=list(c.args), ctx=ast.Load()), c)
                h = ast.copy_location(ast.ExceptHandler(type=typ, name=None, body=[ast.copy_location(ast.Pass(), node)]), node)
                return ast.copy_location(ast.Try(body=node.body, handlers=[h], orelse=[], finalbody=[]), node)
        return node


# ------------------------------------------------------------------------------------------------ N12
class _LenTests(ast.NodeTransformer):
    """In test position (if / while / conditional expression / operand of not, and, or there): `len(x) == 0` is `not x`, `len(x) > 0`, `len(x) != 0`,
    `len(x) >= 1` are `x` (the truth value of the sized container; x pure)."""

    def _t(self, e: ast.expr) -> ast.expr:
        if isinstance(e, ast.UnaryOp) and isinstance(e.op, ast.Not):
            e.operand = self._t(e.operand)
            return e
        if isinstance(e, ast.BoolOp):
            e.values = [self._t(v) for v in e.values]
            return e
        if isinstance(e, ast.Compare) and len(e.ops) == 1:
            a, b, op = e.left, e.comparators[0], e.ops[0]
            if isinstance(b, ast.Call) and ast.unparse(b.func) == "len":
                a, b = b, a
                op = {ast.Lt: ast.Gt, ast.Gt: ast.Lt, ast.LtE: ast.GtE, ast.GtE: ast.LtE}.get(type(op), type(op))()
            if isinstance(a, ast.Call) and ast.unparse(a.func) == "len" and len(a.args) == 1 and not a.keywords and _pure(a.args[0]) \
                    and isinstance(b, ast.Constant) and type(b.value) is int:
                x = a.args[0]
                empty = (isinstance(op, ast.Eq) and b.value == 0) or (isinstance(op, ast.Lt) and b.value == 1) or (isinstance(op, ast.LtE) and b.value == 0)
                nonempty = (isinstance(op, ast.NotEq) and b.value == 0) or (isinstance(op, ast.Gt) and b.value == 0) or (isinstance(op, ast.GtE) and b.value == 1)
                if empty:
                    return ast.copy_location(ast.UnaryOp(op=ast.Not(), operand=x), e)
                if nonempty:
                    return x
        return e

    def visit_If(self, node: ast.If) -> ast.AST:
        self.generic_visit(node)
        node.test = self._t(node.test)
        return node

    def visit_While(self, node: ast.While) -> ast.AST:
        self.generic_visit(node)
        node.test = self._t(node.test)
        return node

    def visit_IfExp(self, node: ast.IfExp) -> ast.AST:
        self.generic_visit(node)
        node.test = self._t(node.test)
        return node

    def visit_comprehension(self, node: ast.comprehension) -> ast.AST:
        self.generic_visit(node)
        node.ifs = [self._t(c) for c in node.ifs]
        return node


# ------------------------------------------------------------------------------------------------ N5
class _IfExpStmts(ast.NodeTransformer):
    """`x = a if c else b` -> `if c: x = a else: x = b`; `return a if c else b` -> `if c: return a else: return b` (same evaluation order)."""

    def _split(self, st: ast.stmt, value: ast.expr, mk) -> ast.stmt:
        if isinstance(value, ast.IfExp):
            node = ast.If(test=value.test, body=[self._split(st, value.body, mk)], orelse=[self._split(st, value.orelse, mk)])
            return ast.copy_location(node, st)
        return ast.copy_location(mk(value), st)

    def visit_Assign(self, node: ast.Assign) -> ast.AST:
        if isinstance(node.value, ast.IfExp) and len(node.targets) == 1 and isinstance(node.targets[0], (ast.Name, ast.Attribute)) \
                and not (isinstance(node.targets[0], ast.Attribute) and not _pure(node.targets[0].value)):
            return self._split(node, node.value, lambda v: ast.Assign(targets=[copy.deepcopy(node.targets[0])], value=v))
        return node

    def visit_AnnAssign(self, node: ast.AnnAssign) -> ast.AST:
        # an annotated local (`x: T = a if c else b`): the annotation has no run-time effect inside a function
        if isinstance(node.value, ast.IfExp) and node.simple and isinstance(node.target, ast.Name):
            return self._split(node, node.value, lambda v: ast.Assign(targets=[ast.Name(id=node.target.id, ctx=ast.Store())], value=v))
        return node

    def visit_Return(self, node: ast.Return) -> ast.AST:
        if isinstance(node.value, ast.IfExp):
            return self._split(node, node.value, lambda v: ast.Return(value=v))
        return node

    def visit_ClassDef(self, node: ast.ClassDef) -> ast.AST:
        # class bodies (field defaults) stay as written; methods are visited
        for i, st in enumerate(node.body):
            if isinstance(st, (ast.FunctionDef, ast.AsyncFunctionDef, ast.ClassDef)):
                node.body[i] = self.visit(st)
        return node

    def visit_Lambda(self, node: ast.Lambda) -> ast.AST:
        return node


# ------------------------------------------------------------------------------------------------ N6
class _WhileTrue(ast.NodeTransformer):
    """`while True:` whose body starts with `if t: <block ending in return / raise>` (no else) is the loop `while not t: <rest>` with that block as its
    else clause (a `break` in the rest skips the else clause exactly as it skipped the exit block before)."""

    def visit_While(self, node: ast.While) -> ast.AST:
        self.generic_visit(node)
        if isinstance(node.test, ast.Constant) and node.test.value is True and not node.orelse and len(node.body) >= 2:
            first = node.body[0]
            if isinstance(first, ast.If) and not first.orelse and len(first.body) == 1 and isinstance(first.body[-1], (ast.Return, ast.Raise)) \
                    and not any(isinstance(x, (ast.Break, ast.Continue)) for x in ast.walk(first)):
                t = first.test
                neg = t.operand if isinstance(t, ast.UnaryOp) and isinstance(t.op, ast.Not) else ast.copy_location(ast.UnaryOp(op=ast.Not(), operand=t), t)
                return ast.copy_location(ast.While(test=neg, body=node.body[1:], orelse=first.body), node)
            # `while True: if t: break; <rest>`  is  `while not t: <rest>`
            if isinstance(first, ast.If) and not first.orelse and len(first.body) == 1 and isinstance(first.body[0], ast.Break):
                t = first.test
                if isinstance(t, ast.UnaryOp) and isinstance(t.op, ast.Not):
                    neg = t.operand
                elif isinstance(t, ast.Compare) and len(t.ops) == 1 and type(t.ops[0]) in (ast.Eq, ast.NotEq, ast.Is, ast.IsNot, ast.In, ast.NotIn):
                    flip = {ast.Eq: ast.NotEq, ast.NotEq: ast.Eq, ast.Is: ast.IsNot, ast.IsNot: ast.Is, ast.In: ast.NotIn, ast.NotIn: ast.In}
                    neg = ast.copy_location(ast.Compare(left=t.left, ops=[flip[type(t.ops[0])]()], comparators=t.comparators), t)
                else:
                    neg = ast.copy_location(ast.UnaryOp(op=ast.Not(), operand=t), t)
                return ast.copy_location(ast.While(test=neg, body=node.body[1:], orelse=[]), node)
        return node


# ------------------------------------------------------------------------------------------------ N7
def _split_handlers(trees: dict[str, ast.Module]) -> None:
    """`except Exception as e: pre; if isinstance(e, T): a [else: b]; post` (T a subclass of Exception defined in the package, not caught by an
    earlier handler, e not re-bound) is the handler pair `except T as e: pre; a; post` / `except Exception as e: pre; b; post`."""
    bases: dict[str, list[str]] = {}
    for t in trees.values():
        for c in ast.walk(t):
            if isinstance(c, ast.ClassDef):
                bases.setdefault(c.name, [ast.unparse(b).split(".")[-1] for b in c.bases])
    builtin_exc = {"Exception", "ValueError", "RuntimeError", "OSError", "ConnectionError", "TimeoutError", "TypeError", "KeyError", "IndexError", "LookupError", "ArithmeticError"}

    def is_exception(name: str, depth: int = 0) -> bool:
        if name in builtin_exc:
            return True
        if depth > 8 or name not in bases:
            return False
        return any(is_exception(b, depth + 1) for b in bases[name])
    for t in trees.values():
        for tr in [n for n in ast.walk(t) if isinstance(n, ast.Try)]:
            new_handlers: list[ast.ExceptHandler] = []
            for h in tr.handlers:
                done = False
                if h.type is not None and ast.unparse(h.type) == "Exception" and h.name:
                    ifs = [(i, st) for i, st in enumerate(h.body) if isinstance(st, ast.If) and isinstance(st.test, ast.Call) and ast.unparse(st.test.func) == "isinstance"
                           and len(st.test.args) == 2 and isinstance(st.test.args[0], ast.Name) and st.test.args[0].id == h.name and isinstance(st.test.args[1], (ast.Name, ast.Attribute))]
                    rebinds = any(isinstance(x, ast.Name) and x.id == h.name and isinstance(x.ctx, (ast.Store, ast.Del)) for st in h.body for x in ast.walk(st))
                    if len(ifs) == 1 and not rebinds:
                        i, st = ifs[0]
                        tname = ast.unparse(st.test.args[1]).split(".")[-1]
                        earlier = [ast.unparse(x.type).split(".")[-1] for x in tr.handlers[:tr.handlers.index(h)] if x.type is not None]
                        if is_exception(tname) and tname != "Exception" and tname not in earlier:
                            pre, post = h.body[:i], h.body[i + 1:]
                            h1 = ast.copy_location(ast.ExceptHandler(type=copy.deepcopy(st.test.args[1]), name=h.name, body=copy.deepcopy(pre) + st.body + copy.deepcopy(post)), h)
                            rest_body = pre + st.orelse + post
                            h2 = ast.copy_location(ast.ExceptHandler(type=h.type, name=h.name, body=rest_body or [ast.copy_location(ast.Pass(), h)]), h)
                            new_handlers += [h1, h2]
                            done = True
                if not done:
                    new_handlers.append(h)
            tr.handlers = new_handlers


# ------------------------------------------------------------------------------------------------ entry
def normalise(trees: dict[str, ast.Module]) -> None:
    known = known_names()
    _inline_helpers(trees, known)
    _split_handlers(trees)
    for t in trees.values():
        _struct_objects(t, known)
        _inline_constants(t, known)
        _Suppress().visit(t)
        _LenTests().visit(t)
        _Exprs().visit(t)
        _WhileTrue().visit(t)
        for fn in [n for n in ast.walk(t) if isinstance(n, (ast.FunctionDef, ast.AsyncFunctionDef))]:
            fn.body = [_IfExpStmts().visit(st) for st in fn.body]
        ast.fix_missing_locations(t)
