"""E3: resolved call graph (class-hierarchy analysis over the static class table).

Resolves  self.m() (MRO + overriding subclasses), self.attr.m() via attribute types (+ subclasses),
super().m(), cls.m()/Class.m(), module functions, constructors, simple local variables
(x = Class(...), x = await Class.classmethod(...), annotated parameters).
`asyncio.create_task(<call>)` makes the called coroutine a *task root*, not a callee of the creator.
"""

from __future__ import annotations

import ast
from dataclasses import dataclass, field
from typing import Any

from .model import ClassInfo, FuncInfo, Model, ModuleInfo, walk_no_nested


@dataclass
class CallSite:
    caller: FuncInfo
    node: ast.Call
    targets: list[FuncInfo]
    text: str
    receiver: str = ""          # '' | 'self' | 'self.<attr>' | 'super' | name
    recv_classes: list[ClassInfo] = field(default_factory=list)
    task_root: bool = False     # the call is the argument of create_task
    awaited: bool = False

    @property
    def loc(self) -> str:
        return f"{self.caller.module.relpath}:{self.node.lineno}"


class CallGraph:
    def __init__(self, m: Model) -> None:
        self.m = m
        self.sites: dict[str, list[CallSite]] = {}
        self.callers: dict[str, list[CallSite]] = {}
        self.task_roots: list[CallSite] = []
        self._attr_types: dict[str, dict[str, list[ClassInfo]]] = {}
        self.funcs: dict[str, FuncInfo] = {f.qualname: f for f in m.functions()}
        for f in list(self.funcs.values()):
            self._scan(f)

    # ------------------------------------------------------------------ helpers
    def attr_types(self, cls: ClassInfo) -> dict[str, list[ClassInfo]]:
        if cls.qualname not in self._attr_types:
            self._attr_types[cls.qualname] = self.m.attr_types(cls)
        return self._attr_types[cls.qualname]

    def dispatch(self, cls: ClassInfo, name: str, include_subclasses: bool = True) -> list[FuncInfo]:
        out: list[FuncInfo] = []
        f = self.m.resolve_method(cls, name)
        if f is not None:
            out.append(f)
        if include_subclasses:
            for sub in self.m.subclasses(cls, strict=True):
                g = sub.methods.get(name)
                if g is not None and g not in out:
                    out.append(g)
        return out

    def _local_types(self, f: FuncInfo) -> dict[str, list[ClassInfo]]:
        m = self.m
        out: dict[str, list[ClassInfo]] = {}
        for p, ann in f.param_annotations().items():
            t = m.annotation_classes(f.module, ann, f.cls)
            if t:
                out[p] = t
        for n in walk_no_nested(f.node):
            tgt = val = None
            if isinstance(n, ast.Assign) and len(n.targets) == 1 and isinstance(n.targets[0], ast.Name):
                tgt, val = n.targets[0].id, n.value
            elif isinstance(n, ast.AnnAssign) and isinstance(n.target, ast.Name):
                t = m.annotation_classes(f.module, n.annotation, f.cls)
                if t:
                    out[n.target.id] = t
                continue
            elif isinstance(n, (ast.With, ast.AsyncWith)):
                for it in n.items:
                    if isinstance(it.optional_vars, ast.Name):
                        v = it.context_expr
                        if isinstance(v, ast.Call):
                            r = m.resolve_expr(f.module, v.func, f.cls)
                            if isinstance(r, ClassInfo):
                                out[it.optional_vars.id] = [r]
                continue
            if tgt is None:
                continue
            if isinstance(val, ast.Await):
                val = val.value
            if isinstance(val, ast.Call):
                r = m.resolve_expr(f.module, val.func, f.cls)
                if isinstance(r, ClassInfo):
                    out[tgt] = [r]
                elif isinstance(r, FuncInfo) and r.cls is not None and r.is_classmethod:
                    ret = r.node.returns
                    if ret is not None and ast.unparse(ret) in ("Self", f"'{r.cls.name}'", r.cls.name):
                        owner = m.resolve_expr(f.module, val.func.value, f.cls) if isinstance(val.func, ast.Attribute) else None
                        out[tgt] = [owner if isinstance(owner, ClassInfo) else r.cls]
                elif isinstance(val.func, ast.Attribute) and isinstance(val.func.value, ast.Name) and val.func.value.id == "cls" and f.cls is not None:
                    g = m.resolve_method(f.cls, val.func.attr)
                    if g is not None and g.node.returns is not None and ast.unparse(g.node.returns) == "Self":
                        out[tgt] = [f.cls]
        return out

    # ------------------------------------------------------------------ scanning
    def _scan(self, f: FuncInfo) -> None:
        m = self.m
        sites: list[CallSite] = []
        locals_ = self._local_types(f)
        task_args: set[int] = set()
        awaited: set[int] = set()
        for n in walk_no_nested(f.node):
            if isinstance(n, ast.Call) and ast.unparse(n.func) in ("asyncio.create_task", "create_task", "asyncio.ensure_future") and n.args:
                a = n.args[0]
                if isinstance(a, ast.Call):
                    task_args.add(id(a))
                elif isinstance(a, ast.Name):
                    # coroutine = self.f(...); create_task(coroutine)
                    for k in walk_no_nested(f.node):
                        if isinstance(k, ast.Assign) and len(k.targets) == 1 and isinstance(k.targets[0], ast.Name) \
                                and k.targets[0].id == a.id and isinstance(k.value, ast.Call):
                            task_args.add(id(k.value))
            if isinstance(n, ast.Await) and isinstance(n.value, ast.Call):
                awaited.add(id(n.value))
        for n in walk_no_nested(f.node):
            if not isinstance(n, ast.Call):
                continue
            targets, recv, rcls = self._resolve(f, n, locals_)
            cs = CallSite(f, n, targets, ast.unparse(n.func), recv, rcls, id(n) in task_args, id(n) in awaited)
            sites.append(cs)
            if cs.task_root:
                self.task_roots.append(cs)
            for t in targets:
                self.callers.setdefault(t.qualname, []).append(cs)
        self.sites[f.qualname] = sites

    def _resolve(self, f: FuncInfo, call: ast.Call, locals_: dict[str, list[ClassInfo]]) -> tuple[list[FuncInfo], str, list[ClassInfo]]:
        m = self.m
        fn = call.func
        if isinstance(fn, ast.Attribute):
            v = fn.value
            # super().m()
            if isinstance(v, ast.Call) and isinstance(v.func, ast.Name) and v.func.id == "super" and f.cls is not None:
                targets = []
                for sub in [f.cls]:
                    t = m.resolve_method(sub, fn.attr, after=f.cls)
                    if t is not None:
                        targets.append(t)
                return targets, "super", [f.cls]
            if isinstance(v, ast.Name) and v.id in ("self", "cls") and f.cls is not None:
                return self.dispatch(f.cls, fn.attr), v.id, [f.cls]
            if isinstance(v, ast.Attribute) and isinstance(v.value, ast.Name) and v.value.id == "self" and f.cls is not None:
                types = self.attr_types(f.cls).get(v.attr, [])
                targets: list[FuncInfo] = []
                for t in types:
                    for g in self.dispatch(t, fn.attr):
                        if g not in targets:
                            targets.append(g)
                return targets, f"self.{v.attr}", types
            if isinstance(v, ast.Name) and v.id in locals_:
                targets = []
                for t in locals_[v.id]:
                    for g in self.dispatch(t, fn.attr):
                        if g not in targets:
                            targets.append(g)
                return targets, v.id, locals_[v.id]
            r = m.resolve_expr(f.module, fn, f.cls)
            if isinstance(r, FuncInfo):
                return [r], ast.unparse(v), [r.cls] if r.cls else []
            if isinstance(r, ClassInfo):
                init = m.resolve_method(r, "__init__")
                return ([init] if init else []), ast.unparse(v), [r]
            return [], ast.unparse(v), []
        if isinstance(fn, ast.Name):
            r = m.resolve_expr(f.module, fn, f.cls)
            if isinstance(r, FuncInfo):
                return [r], "", []
            if isinstance(r, ClassInfo):
                init = m.resolve_method(r, "__init__")
                return ([init] if init else []), "", [r]
        return [], "", []

    # ------------------------------------------------------------------ queries
    def callees(self, f: FuncInfo, include_task_roots: bool = False) -> list[tuple[CallSite, FuncInfo]]:
        out = []
        for cs in self.sites.get(f.qualname, []):
            if cs.task_root and not include_task_roots:
                continue
            for t in cs.targets:
                out.append((cs, t))
        return out

    def reachable(self, roots: list[FuncInfo]) -> dict[str, list[str]]:
        """qualname -> one call chain from a root."""
        seen: dict[str, list[str]] = {}
        todo = [(r, [r.qualname]) for r in roots]
        while todo:
            f, chain = todo.pop()
            if f.qualname in seen:
                continue
            seen[f.qualname] = chain
            for cs, t in self.callees(f):
                if t.qualname not in seen:
                    todo.append((t, chain + [t.qualname]))
        return seen
