"""E4: abstract interpretation of codec code in byte-layout / bit-field / length domains.

The interpreter evaluates gallia's `_check_pdu`, `_from_pdu`, `__init__`, `pdu`, `matches`
(and the small helpers they call) over *abstract* values whose only primitive is a symbolic
PDU `pdu` of symbolic length L:

  IntV     an integer described by its provenance:
             bits   - tuple (LSB first) of bit sources: 0, 1 or ('p', offset, bit) = bit of pdu[offset]
             fb     - big-endian integer of the slice pdu[lo:hi]  (hi None = to the end)
             lin    - linear expression over L, loop counters and other symbols
             opaque - anything else (a reason string)
  BytesV   a concatenation of segments (width, payload)
  ListV / DictV / TupleV / NoneV / ConstV / ObjV / ClassV

No gallia code is run; no solver is used.  Paths fork at conditions that the abstract values do
not decide; every path carries the facts it assumed (length facts, pinned bits, opaque conditions).
Unknown syntax raises AnalysisError (fail closed).
"""

from __future__ import annotations

import ast
import copy
import re
import struct
from dataclasses import dataclass, field
from typing import Any

from .model import AnalysisError, ClassInfo, FuncInfo, Model, ModuleInfo, NotConst

# --------------------------------------------------------------------------- linear expressions


class Lin:
    """c0 + sum(coeff * symbol); symbols are hashable (strings or tuples)."""

    __slots__ = ("terms", "const")

    def __init__(self, const: int = 0, terms: dict[Any, int] | None = None) -> None:
        self.const = const
        self.terms = {k: v for k, v in (terms or {}).items() if v != 0}

    @staticmethod
    def sym(s: Any) -> "Lin":
        return Lin(0, {s: 1})

    def __add__(self, o: "Lin | int") -> "Lin":
        o = o if isinstance(o, Lin) else Lin(o)
        t = dict(self.terms)
        for k, v in o.terms.items():
            t[k] = t.get(k, 0) + v
        return Lin(self.const + o.const, t)

    def __neg__(self) -> "Lin":
        return Lin(-self.const, {k: -v for k, v in self.terms.items()})

    def __sub__(self, o: "Lin | int") -> "Lin":
        o = o if isinstance(o, Lin) else Lin(o)
        return self + (-o)

    def scale(self, k: int) -> "Lin":
        return Lin(self.const * k, {s: v * k for s, v in self.terms.items()})

    @property
    def is_const(self) -> bool:
        return not self.terms

    def key(self) -> tuple:
        return (self.const, tuple(sorted(self.terms.items(), key=lambda kv: repr(kv[0]))))

    def __eq__(self, o: object) -> bool:
        if isinstance(o, int):
            return self.is_const and self.const == o
        return isinstance(o, Lin) and self.key() == o.key()

    def __hash__(self) -> int:
        return hash(self.key())

    def coeff(self, s: Any) -> int:
        return self.terms.get(s, 0)

    def without(self, s: Any) -> "Lin":
        return Lin(self.const, {k: v for k, v in self.terms.items() if k != s})

    def subst(self, s: Any, val: "Lin") -> "Lin":
        c = self.coeff(s)
        if not c:
            return self
        return self.without(s) + val.scale(c)

    def __repr__(self) -> str:
        parts = []
        for k, v in sorted(self.terms.items(), key=lambda kv: repr(kv[0])):
            name = k if isinstance(k, str) else sym_name(k)
            parts.append(name if v == 1 else f"{v}*{name}")
        if self.const or not parts:
            parts.append(str(self.const))
        return "+".join(parts).replace("+-", "-")


def sym_name(k: Any) -> str:
    if isinstance(k, tuple) and k and k[0] == "bits":
        return "bits" + bits_repr(k[1])
    return repr(k)


L = Lin.sym("L")  # len(pdu)

# --------------------------------------------------------------------------- values


@dataclass
class IntV:
    kind: str  # bits | fb | lin | opaque
    bits: tuple | None = None
    lo: Lin | None = None
    hi: Lin | None = None
    lin: Lin | None = None
    why: str = ""
    enum: str | None = None  # coerced through this enum class (lossless for IntEnum with all members? recorded)
    is_bool: bool = False

    def __repr__(self) -> str:
        if self.kind == "bits":
            return "int" + bits_repr(self.bits)
        if self.kind == "fb":
            return f"from_bytes(pdu[{self.lo}:{'' if self.hi is None else self.hi}])"
        if self.kind == "lin":
            return f"int({self.lin})"
        if self.kind == "mod":
            return f"int(({self.lin}) % ({self.lo}))"
        return f"opaque({self.why})"


def bits_repr(bits: tuple) -> str:
    # compress runs: pdu[o][hi:lo]
    out = []
    i = len(bits) - 1
    while i >= 0:
        b = bits[i]
        if isinstance(b, tuple) and b[0] == "p":
            j = i
            while j - 1 >= 0 and isinstance(bits[j - 1], tuple) and bits[j - 1][0] == "p" and bits[j - 1][1] == b[1] and bits[j - 1][2] == bits[j][2] - 1:
                j -= 1
            out.append(f"pdu[{b[1]}].{b[2]}" + (f"..{bits[j][2]}" if j != i else "") + f"@{i}" )
            i = j - 1
        else:
            j = i
            while j - 1 >= 0 and bits[j - 1] == b:
                j -= 1
            if b != 0:
                out.append(f"{b!r}@{i}" + (f"..{j}" if j != i else ""))
            i = j - 1
    return "<" + ",".join(out) + ">"


def int_const(v: int) -> IntV:
    if 0 <= v < (1 << 32):
        n = max(8, v.bit_length())
        return IntV("bits", bits=tuple((v >> i) & 1 for i in range(n)), lin=Lin(v))
    return IntV("lin", lin=Lin(v))


def pdu_byte(off: Lin) -> IntV:
    return IntV("bits", bits=tuple(("p", off, j) for j in range(8)))


def opaque(why: str, is_bool: bool = False) -> IntV:
    return IntV("opaque", why=why, is_bool=is_bool)


def as_const_int(v: Any) -> int | None:
    if isinstance(v, ConstV) and isinstance(v.value, (int, bool)):
        return int(v.value)
    if isinstance(v, IntV):
        if v.kind == "bits" and all(b in (0, 1) for b in v.bits):
            return sum(b << i for i, b in enumerate(v.bits))
        if v.kind == "lin" and v.lin.is_const:
            return v.lin.const
    return None


def as_lin(v: Any) -> Lin | None:
    c = as_const_int(v)
    if c is not None:
        return Lin(c)
    if isinstance(v, IntV):
        if v.kind == "lin":
            return v.lin
        if v.kind == "bits":
            return Lin.sym(("bits", trim_bits(v.bits)))
    return None


def trim_bits(bits: tuple) -> tuple:
    b = list(bits)
    while len(b) > 1 and b[-1] == 0:
        b.pop()
    return tuple(b)


@dataclass
class ConstV:
    value: Any

    def __repr__(self) -> str:
        return f"const({self.value!r})"


@dataclass
class NoneV:
    def __repr__(self) -> str:
        return "None"


@dataclass
class Seg:
    width: Lin | None  # None = variable (to the end / unknown)
    kind: str  # int | raw | const | repeat | opaque
    val: Any = None  # IntV for int, (lo,hi) for raw, bytes for const, Repeat for repeat
    code: str = ""  # pack code / 'to_bytes' / 'bytes([..])'
    endian: str = "big"

    def __repr__(self) -> str:
        return f"[{self.width if self.width is not None else '*'}:{self.kind}:{self.val}]"


@dataclass
class Repeat:
    loop: "Loop"
    group: list[Seg]

    def __repr__(self) -> str:
        return f"repeat({self.loop}){self.group}"


@dataclass
class Loop:
    var: str  # counter symbol
    start: Lin
    stop: Lin  # exclusive
    stride: Lin
    ident: int = 0

    def __repr__(self) -> str:
        return f"{self.var}=range({self.start},{self.stop},{self.stride})"


@dataclass
class BytesV:
    segs: list[Seg]

    def __repr__(self) -> str:
        return "bytes" + repr(self.segs)


def raw_slice(lo: Lin, hi: Lin | None) -> BytesV:
    return BytesV([Seg(None if hi is None else hi - lo, "raw", (lo, hi))])


def bytes_len(b: BytesV) -> Lin | None:
    tot = Lin(0)
    for s in b.segs:
        if s.kind == "raw" and s.val[1] is None:
            tot = tot + (L - s.val[0])
        elif s.width is None:
            return None
        else:
            tot = tot + s.width
    return tot


@dataclass
class TupleV:
    items: list[Any]


@dataclass
class ListV:
    elem: Any | None  # abstract element in terms of loop.var; None for literal lists
    loop: Loop | None
    items: list[Any] | None = None  # literal list


@dataclass
class DictV:
    key: Any
    val: Any
    loop: Loop | None  # None: single literal entry


@dataclass
class ClassV:
    cls: ClassInfo


@dataclass
class ObjV:
    cls: ClassInfo
    fields: dict[str, Any] = field(default_factory=dict)
    oid: int = 0


@dataclass
class BoundMethod:
    obj: Any
    func: FuncInfo


@dataclass
class FuncV:
    func: FuncInfo


@dataclass
class UnknownV:
    why: str

    def __repr__(self) -> str:
        return f"unknown({self.why})"


# --------------------------------------------------------------------------- path state


class Raised(Exception):
    def __init__(self, exc: str, node: ast.AST | None = None, where: str = "") -> None:
        self.exc = exc
        self.node = node
        self.where = where


@dataclass
class Fact:
    kind: str  # len | bits | opaque
    op: str = ""
    lin: Lin | None = None  # for len facts: (L-expr) op 0  i.e. expr stored as lin, compared with 0
    bits: tuple | None = None
    const: int | None = None
    text: str = ""
    where: str = ""
    vtext: str = ""   # value-level description of an opaque condition (which abstract values it relates)

    def __repr__(self) -> str:
        if self.kind == "len":
            return f"({self.lin}) {self.op} 0"
        if self.kind == "bits":
            return f"{bits_repr(self.bits)} {self.op} {self.const:#x}"
        return f"opaque[{self.text}]"


@dataclass
class State:
    facts: list[Fact] = field(default_factory=list)
    heap: dict[int, ObjV] = field(default_factory=dict)
    trace: list[str] = field(default_factory=list)
    guards: list[tuple[str, Any]] = field(default_factory=list)  # (guard kind, value) range checks passed
    next_id: int = 1

    def clone(self) -> "State":
        # abstract values are treated as immutable; only containers owned by the state are copied
        heap = {k: ObjV(o.cls, dict(o.fields), o.oid) for k, o in self.heap.items()}
        return State(list(self.facts), heap, list(self.trace), list(self.guards), self.next_id)

    # ---- length reasoning
    def len_bounds(self) -> tuple[int, float]:
        lo, hi = 0, float("inf")
        changed = True
        ne: list[int] = []
        for f in self.facts:
            if f.kind != "len" or f.lin.without("L").terms:
                continue
            c = f.lin.coeff("L")
            if c not in (1, -1):
                continue
            # c*L + k op 0
            k = f.lin.const
            op = f.op
            if c == -1:
                k = -k
                op = {"<": ">", "<=": ">=", ">": "<", ">=": "<=", "==": "==", "!=": "!="}[op]
            # L + k op 0  -> L op -k
            v = -k
            if op == "==":
                lo, hi = max(lo, v), min(hi, v)
            elif op == ">=":
                lo = max(lo, v)
            elif op == ">":
                lo = max(lo, v + 1)
            elif op == "<=":
                hi = min(hi, v)
            elif op == "<":
                hi = min(hi, v - 1)
            elif op == "!=":
                ne.append(v)
        while changed:
            changed = False
            if lo in ne and lo <= hi:
                lo += 1
                changed = True
            if hi in ne and lo <= hi:
                hi -= 1
                changed = True
        return lo, hi

    def feasible(self) -> bool:
        lo, hi = self.len_bounds()
        if lo > hi:
            return False
        # contradictory bit facts
        pins: dict[Any, int] = {}
        for f in self.facts:
            if f.kind == "bits" and f.op == "==":
                for i, b in enumerate(f.bits):
                    want = (f.const >> i) & 1
                    if b in (0, 1):
                        if b != want:
                            return False
                    else:
                        if pins.setdefault(b, want) != want:
                            return False
                if f.const >> len(f.bits):
                    return False
        return True

    def len_equals(self, target: Lin) -> bool:
        """Is L == target implied by the facts?"""
        if target.is_const:
            lo, hi = self.len_bounds()
            if lo == hi == target.const:
                return True
        for f in self.facts:
            if f.kind == "len" and f.op == "==":
                # f.lin == 0 ; want L - target == 0
                d = L - target
                if f.lin == d or f.lin == -d:
                    return True
        return False

    def len_mod_zero(self, expr: Lin, k: Lin) -> bool:
        for f in self.facts:
            if f.kind == "len" and f.op == "mod==0" and f.text == repr(k):
                d = expr - f.lin
                if d == 0 or (d.is_const and k.is_const and k.const != 0 and d.const % k.const == 0):
                    return True
        lo, hi = self.len_bounds()
        if lo == hi and k.is_const and expr.without("L").is_const:
            v = expr.subst("L", Lin(lo))
            return v.is_const and k.const != 0 and v.const % k.const == 0
        return False

    def pinned(self, src: tuple) -> int | None:
        """Value (0/1) a pdu bit is pinned to by the facts of this path, else None."""
        for f in self.facts:
            if f.kind == "bits" and f.op == "==":
                for i, b in enumerate(f.bits):
                    if b == src:
                        return (f.const >> i) & 1
        return None


# --------------------------------------------------------------------------- interpreter


class Interp:
    """Path-forking abstract interpreter for the codec subset of Python used by gallia."""

    MAX_PATHS = 256
    MAX_DEPTH = 12

    def __init__(self, model: Model) -> None:
        self.m = model
        self.loop_counter = 0
        self.unknown_ok = True

    # .................................................................. calling
    def call_function(self, st: State, fn: FuncInfo, args: list[Any], kwargs: dict[str, Any],
                      self_val: Any = None, depth: int = 0) -> list[tuple[State, Any]]:
        """Returns [(state, return value | Raised)]."""
        if depth > self.MAX_DEPTH:
            raise AnalysisError(f"inlining depth exceeded at {fn.qualname}")
        node = fn.node
        a = node.args
        params = [x.arg for x in a.posonlyargs + a.args]
        env: dict[str, Any] = {}
        pos = list(args)
        if self_val is not None and not fn.is_staticmethod:
            pos = [self_val] + pos
        if a.vararg is None and len(pos) > len(params):
            return [(st, Raised("TypeError", node, f"{fn.qualname}: too many positional arguments ({len(pos)} > {len(params)})"))]
        for p, v in zip(params, pos):
            env[p] = v
        for k, v in kwargs.items():
            if k in env:
                return [(st, Raised("TypeError", node, f"{fn.qualname}: multiple values for {k}"))]
            env[k] = v
        defaults = fn.param_defaults()
        outs: list[tuple[State, Any]] = []
        for p in params + [x.arg for x in a.kwonlyargs]:
            if p not in env:
                if p in defaults:
                    env[p] = self.eval_const_default(fn, defaults[p])
                else:
                    return [(st, Raised("TypeError", node, f"{fn.qualname}: missing argument {p}"))]
        env["__fn__"] = fn
        env["__depth__"] = depth
        for st2, sig in self.exec_block(st, env, node.body):
            if sig is None:
                outs.append((st2, NoneV()))
            elif isinstance(sig, tuple) and sig[0] == "return":
                outs.append((st2, sig[1]))
            elif isinstance(sig, Raised):
                outs.append((st2, sig))
            else:
                raise AnalysisError(f"{fn.qualname}: unexpected control signal {sig!r}")
        if len(outs) > self.MAX_PATHS:
            raise AnalysisError(f"path explosion in {fn.qualname}")
        return outs

    def eval_const_default(self, fn: FuncInfo, expr: ast.expr) -> Any:
        try:
            v = self.m.fold(fn.module, expr, cls=fn.cls)
        except NotConst:
            return UnknownV(f"default {ast.unparse(expr)}")
        return self.lift(v)

    def lift(self, v: Any) -> Any:
        if v is None:
            return NoneV()
        if isinstance(v, bool):
            return ConstV(v)
        if isinstance(v, int):
            return int_const(v)
        if isinstance(v, bytes):
            return BytesV([Seg(Lin(len(v)), "const", v)]) if v else BytesV([])
        return ConstV(v)

    # ................................................................. statements
    def exec_block(self, st: State, env: dict[str, Any], body: list[ast.stmt]) -> list[tuple[State, Any]]:
        paths: list[tuple[State, dict[str, Any], Any]] = [(st, env, None)]
        for stmt in body:
            nxt: list[tuple[State, dict[str, Any], Any]] = []
            for s, e, sig in paths:
                if sig is not None:
                    nxt.append((s, e, sig))
                    continue
                for s2, e2, sig2 in self.exec_stmt(s, e, stmt):
                    nxt.append((s2, e2, sig2))
            paths = nxt
            if len(paths) > self.MAX_PATHS:
                raise AnalysisError("path explosion")
        # env mutations are per path; caller blocks share env by reference through the tuple
        out = []
        for s, e, sig in paths:
            env_update(env, e)
            out.append((s, sig if sig is not None else None))
            # NOTE: callers that continue after this block must use per-path env; see exec_stmt(If)
        self._last_envs = [e for _, e, _ in paths]
        return out

    def exec_block_env(self, st: State, env: dict[str, Any], body: list[ast.stmt]) -> list[tuple[State, dict[str, Any], Any]]:
        paths: list[tuple[State, dict[str, Any], Any]] = [(st, env, None)]
        for stmt in body:
            nxt = []
            for s, e, sig in paths:
                if sig is not None:
                    nxt.append((s, e, sig))
                else:
                    nxt.extend(self.exec_stmt(s, e, stmt))
            paths = nxt
            if len(paths) > self.MAX_PATHS:
                raise AnalysisError("path explosion")
        return paths

    def exec_stmt(self, st: State, env: dict[str, Any], stmt: ast.stmt) -> list[tuple[State, dict[str, Any], Any]]:
        fn: FuncInfo = env["__fn__"]
        where = f"{fn.module.relpath}:{getattr(stmt, 'lineno', 0)}"
        try:
            return self._exec_stmt(st, env, stmt, where)
        except Raised as r:
            r.where = r.where or where
            return [(st, env, r)]

    def _exec_stmt(self, st: State, env: dict[str, Any], stmt: ast.stmt, where: str) -> list[tuple[State, dict[str, Any], Any]]:
        if isinstance(stmt, ast.Pass):
            return [(st, env, None)]
        if isinstance(stmt, ast.Expr):
            if isinstance(stmt.value, ast.Constant):
                return [(st, env, None)]
            c = stmt.value
            if (isinstance(c, ast.Call) and isinstance(c.func, ast.Attribute) and c.func.attr == "append"
                    and isinstance(c.func.value, ast.Name) and len(c.args) == 1
                    and isinstance(env.get(c.func.value.id), ListV)):
                lst = env[c.func.value.id]
                if lst.items is None:
                    raise AnalysisError(f"{where}: append to abstract list")
                out = []
                for s, e, v in self.eval_paths(st, env, c.args[0]):
                    if isinstance(v, Raised):
                        out.append((s, e, v))
                    else:
                        e = dict(e)
                        e[c.func.value.id] = ListV(None, None, lst.items + [v])
                        out.append((s, e, None))
                return out
            out = []
            for s, e, v in self.eval_paths(st, env, stmt.value):
                out.append((s, e, v if isinstance(v, Raised) else None))
            return out
        if isinstance(stmt, ast.Return):
            if stmt.value is None:
                return [(st, env, ("return", NoneV()))]
            out = []
            for s, e, v in self.eval_paths(st, env, stmt.value):
                out.append((s, e, v if isinstance(v, Raised) else ("return", v)))
            return out
        if isinstance(stmt, ast.Raise):
            name = "Exception"
            if stmt.exc is not None:
                f = stmt.exc.func if isinstance(stmt.exc, ast.Call) else stmt.exc
                name = ast.unparse(f)
            return [(st, env, Raised(name, stmt, where))]
        if isinstance(stmt, (ast.Assign, ast.AnnAssign)):
            if isinstance(stmt, ast.AnnAssign):
                if stmt.value is None:
                    return [(st, env, None)]
                targets = [stmt.target]
            else:
                targets = stmt.targets
            out = []
            for s, e, v in self.eval_paths(st, env, stmt.value):
                if isinstance(v, Raised):
                    out.append((s, e, v))
                    continue
                e = dict(e)
                for t in targets:
                    self.assign(s, e, t, v, where)
                out.append((s, e, None))
            return out
        if isinstance(stmt, ast.AugAssign):
            binop = ast.BinOp(left=_load(stmt.target), op=stmt.op, right=stmt.value)
            ast.copy_location(binop, stmt)
            ast.fix_missing_locations(binop)
            out = []
            for s, e, v in self.eval_paths(st, env, binop):
                if isinstance(v, Raised):
                    out.append((s, e, v))
                    continue
                e = dict(e)
                self.assign(s, e, stmt.target, v, where)
                out.append((s, e, None))
            return out
        if isinstance(stmt, ast.Assert):
            # an assert is a guard: the failing branch raises AssertionError
            out = []
            for s, e, c in self.cond_paths(st, env, stmt.test, where):
                out.append((s, e, None if c else Raised("AssertionError", stmt, where)))
            return out
        if isinstance(stmt, ast.If):
            out = []
            for s, e, c in self.cond_paths(st, env, stmt.test, where):
                body = stmt.body if c else stmt.orelse
                out.extend(self.exec_block_env(s, e, body))
            return out
        if isinstance(stmt, ast.For):
            return self.exec_for(st, env, stmt, where)
        if isinstance(stmt, ast.Try):
            # codec code has no try; helper RawPositiveResponse.matches does -> not interpreted here
            raise AnalysisError(f"{where}: try statement in interpreted code")
        raise AnalysisError(f"{where}: unsupported statement {type(stmt).__name__}: {ast.unparse(stmt)[:80]}")

    def assign(self, st: State, env: dict[str, Any], target: ast.expr, v: Any, where: str) -> None:
        if isinstance(target, ast.Name):
            env[target.id] = v
            return
        if isinstance(target, ast.Attribute):
            owner = self.eval1(st, env, target.value)
            if isinstance(owner, ObjV):
                st.heap[owner.oid].fields[target.attr] = v
                return
            raise AnalysisError(f"{where}: assignment to attribute of {owner!r}")
        if isinstance(target, (ast.Tuple, ast.List)):
            items = self.unpack(v, len(target.elts), where)
            for t, x in zip(target.elts, items):
                self.assign(st, env, t, x, where)
            return
        if isinstance(target, ast.Subscript):
            raise AnalysisError(f"{where}: subscript assignment {ast.unparse(target)}")
        raise AnalysisError(f"{where}: unsupported assignment target {ast.unparse(target)}")

    def unpack(self, v: Any, n: int, where: str) -> list[Any]:
        if isinstance(v, TupleV):
            if len(v.items) != n:
                raise Raised("ValueError", None, f"{where}: cannot unpack {len(v.items)} values into {n}")
            return v.items
        if isinstance(v, UnknownV):
            return [UnknownV(v.why) for _ in range(n)]
        raise AnalysisError(f"{where}: cannot unpack {v!r}")

    # ....................................................................... loops
    def exec_for(self, st: State, env: dict[str, Any], stmt: ast.For, where: str) -> list[tuple[State, dict[str, Any], Any]]:
        if stmt.orelse:
            raise AnalysisError(f"{where}: for-else")
        it = stmt.iter
        self.loop_counter += 1
        ident = self.loop_counter
        env = dict(env)
        loop: Loop | None = None
        bind: list[tuple[ast.expr, Any]] = []
        if isinstance(it, ast.Call) and ast.unparse(it.func) == "range":
            args = [self.eval1(st, env, a) for a in it.args]
            lins = [as_lin(a) for a in args]
            if any(x is None for x in lins):
                raise AnalysisError(f"{where}: non-linear range() bounds {ast.unparse(it)}")
            if len(lins) == 1:
                start, stop, stride = Lin(0), lins[0], Lin(1)
            elif len(lins) == 2:
                start, stop, stride = lins[0], lins[1], Lin(1)
            else:
                start, stop, stride = lins
            var = f"i{ident}"
            loop = Loop(var, start, stop, stride, ident)
            bind = [(stmt.target, IntV("lin", lin=Lin.sym(var)))]
        else:
            src = self.eval1(st, env, it)
            lit = self.literal_elems(src)
            if lit is not None:
                # literal list(s): unroll concretely
                paths = [(st, env, None)]
                for elem in lit:
                    nxt = []
                    for s, e, sig in paths:
                        if sig is not None:
                            nxt.append((s, e, sig))
                            continue
                        e = dict(e)
                        self.assign(s, e, stmt.target, elem, where)
                        nxt.extend(self.exec_block_env(s, e, stmt.body))
                    paths = nxt
                return paths
            items = self.iter_elems(src, where)
            if items is None:
                # loop over something we know nothing about: body must be guard-only
                loop = Loop(f"i{ident}", Lin(0), Lin.sym(f"n{ident}"), Lin(1), ident)
                bind = [(stmt.target, UnknownV(f"element of {ast.unparse(it)}"))]
            else:
                loop, elem = items
                bind = [(stmt.target, elem)]
        for t, v in bind:
            if isinstance(t, (ast.Tuple, ast.List)) and isinstance(v, UnknownV):
                for x in t.elts:
                    self.assign(st, env, x, UnknownV(v.why), where)
            else:
                self.assign(st, env, t, v, where)
        # abstract single iteration of the body; accumulate effects
        before = {k: v for k, v in env.items()}
        env["__loop__"] = loop
        paths = self.exec_block_env(st, env, stmt.body)
        ok = [(s, e) for s, e, sig in paths if sig is None]
        bad = [(s, e, sig) for s, e, sig in paths if sig is not None]
        for s, e, sig in bad:
            if not isinstance(sig, Raised):
                raise AnalysisError(f"{where}: break/continue/return inside interpreted loop")
        if len(ok) != 1:
            # forks inside the loop body are only accepted if they are guard-only (raise on one side)
            if not ok:
                return bad
            raise AnalysisError(f"{where}: loop body forks into {len(ok)} continuing paths")
        s, e = ok[0]
        e = dict(e)
        e.pop("__loop__", None)
        for k, v in list(e.items()):
            if k.startswith("__"):
                continue
            old = before.get(k)
            if v is old:
                continue
            if isinstance(v, BytesV) and isinstance(old, BytesV):
                # x = x + segs / x += segs  ->  repeat group
                n = len(old.segs)
                if v.segs[:n] != old.segs:
                    raise AnalysisError(f"{where}: loop rewrites bytes variable {k} non-monotonically")
                group = v.segs[n:]
                e[k] = BytesV(old.segs + ([Seg(None, "repeat", Repeat(loop, group))] if group else []))
            elif isinstance(v, ListV) and isinstance(old, ListV) and v.items is not None and old.items is not None:
                if len(v.items) == len(old.items) + 1 and not old.items:
                    e[k] = ListV(v.items[-1], loop, None)
                elif len(v.items) == len(old.items):
                    pass
                else:
                    raise AnalysisError(f"{where}: list {k} built irregularly in loop")
            elif k in [n.id for t, _ in bind for n in ast.walk(t) if isinstance(n, ast.Name)]:
                pass
            elif isinstance(v, (IntV, UnknownV)) and k in before:
                # scalar reductions (max(...)) are not needed for layout: forget precisely
                e[k] = UnknownV(f"loop-carried {k}")
            elif k not in before:
                pass  # loop-local temporary
            else:
                raise AnalysisError(f"{where}: loop updates {k} in an unrecognised way ({old!r} -> {v!r})")
        res = [(s, e, None)]
        # a raise inside the loop body stays a possible outcome (guards over elements)
        res.extend(bad)
        return res

    def literal_elems(self, src: Any) -> list[Any] | None:
        if isinstance(src, DictV) and src.loop is None:
            if src.key is None:
                return []
            if getattr(src, "_items", False):
                return [TupleV([src.key, src.val])]
            return [src.key]
        if isinstance(src, ListV) and src.items is not None and src.loop is None:
            return list(src.items)
        if isinstance(src, TupleV) and getattr(src, "_zip", False) and src.items and all(
                isinstance(x, ListV) and x.items is not None and x.loop is None for x in src.items):
            n = min(len(x.items) for x in src.items)
            return [TupleV([x.items[i] for x in src.items]) for i in range(n)]
        return None

    def iter_elems(self, src: Any, where: str) -> tuple[Loop, Any] | None:
        if isinstance(src, ListV):
            if src.loop is not None:
                return src.loop, src.elem
            return None
        if isinstance(src, TupleV) and src.items and all(isinstance(x, ListV) for x in src.items) and getattr(src, "_zip", False):
            loops = [x.loop for x in src.items]
            if any(l is None for l in loops):
                return None
            if any(l.ident != loops[0].ident for l in loops):
                raise AnalysisError(f"{where}: zip over lists built by different loops")
            return loops[0], TupleV([x.elem for x in src.items])
        if isinstance(src, DictV) and getattr(src, "_items", False):
            if src.loop is None:
                self.loop_counter += 1
                lp = Loop(f"d{self.loop_counter}", Lin(0), Lin(1), Lin(1), self.loop_counter)
                return lp, TupleV([src.key, src.val])
            return src.loop, TupleV([src.key, src.val])
        if isinstance(src, UnknownV):
            return None
        return None

    # ................................................................. conditions
    def cond_paths(self, st: State, env: dict[str, Any], test: ast.expr, where: str) -> list[tuple[State, dict[str, Any], bool]]:
        """Fork on a condition: returns (state, env, truth) for each feasible outcome."""
        if isinstance(test, ast.BoolOp):
            is_and = isinstance(test.op, ast.And)
            results: list[tuple[State, dict[str, Any], bool]] = []
            pending = [(st, env)]
            for i, sub in enumerate(test.values):
                nxt = []
                for s, e in pending:
                    for s2, e2, c in self.cond_paths(s, e, sub, where):
                        if c != is_and:  # short-circuit
                            results.append((s2, e2, c))
                        else:
                            nxt.append((s2, e2))
                pending = nxt
            for s, e in pending:
                results.append((s, e, is_and))
            return results
        if isinstance(test, ast.UnaryOp) and isinstance(test.op, ast.Not):
            return [(s, e, not c) for s, e, c in self.cond_paths(st, env, test.operand, where)]
        out = []
        for s, e, v in self.eval_paths(st, env, test):
            if isinstance(v, Raised):
                raise v
            d = self.decide(s, v, test, where)
            if d is not None:
                out.append((s, e, d))
                continue
            for truth in (True, False):
                s2 = s.clone()
                self.assume(s2, v, truth, test, where)
                if s2.feasible():
                    out.append((s2, dict(e), truth))
        return out

    def decide(self, st: State, v: Any, node: ast.expr, where: str) -> bool | None:
        if isinstance(v, ConstV):
            return bool(v.value)
        if isinstance(v, NoneV):
            return False
        if isinstance(v, CondV):
            if v.decided is not None:
                return v.decided
            if v.fact is not None and v.neg is not None:
                have = {repr(f) for f in st.facts}
                if repr(v.fact) in have:
                    return True
                if repr(v.neg) in have:
                    return False
            return None
        c = as_const_int(v)
        if c is not None:
            return bool(c)
        if isinstance(v, BytesV):
            n = bytes_len(v)
            if n is not None and n.is_const:
                return n.const > 0
        return None

    def assume(self, st: State, v: Any, truth: bool, node: ast.expr, where: str) -> None:
        if isinstance(v, CondV) and v.fact is not None:
            f = v.fact if truth else v.negated()
            if f is not None:
                f.where = where
                st.facts.append(f)
                return
        vtext = v.text if isinstance(v, CondV) else repr(v)
        st.facts.append(Fact("opaque", text=("" if truth else "not ") + ast.unparse(node), where=where, vtext=vtext))

    # ................................................................ expressions
    def eval1(self, st: State, env: dict[str, Any], node: ast.expr) -> Any:
        """Evaluate an expression that must not fork."""
        res = self.eval_paths(st, env, node)
        if len(res) != 1:
            raise AnalysisError(f"expression forks unexpectedly: {ast.unparse(node)}")
        s, e, v = res[0]
        if isinstance(v, Raised):
            raise v
        return v

    def eval_paths(self, st: State, env: dict[str, Any], node: ast.expr) -> list[tuple[State, dict[str, Any], Any]]:
        """Evaluate with forking (IfExp, calls with several outcomes)."""
        fn: FuncInfo = env["__fn__"]
        where = f"{fn.module.relpath}:{getattr(node, 'lineno', 0)}"
        if isinstance(node, ast.IfExp):
            out = []
            for s, e, c in self.cond_paths(st, env, node.test, where):
                out.extend(self.eval_paths(s, e, node.body if c else node.orelse))
            return out
        if isinstance(node, ast.Call):
            return self.eval_call(st, env, node, where)
        if isinstance(node, ast.BoolOp):
            return [(s, e, ConstV(c)) for s, e, c in self.cond_paths(st, env, node, where)]
        if isinstance(node, ast.NamedExpr):
            out = []
            for s, e, v in self.eval_paths(st, env, node.value):
                if not isinstance(v, Raised):
                    e = dict(e)
                    e[node.target.id] = v
                out.append((s, e, v))
            return out
        # sub-expressions that may contain calls/ifexps: evaluate operands with forking
        kids = self.operand_nodes(node)
        if kids is None:
            try:
                return [(st, env, self.eval_simple(st, env, node, [], where))]
            except Raised as r:
                r.where = r.where or where
                return [(st, env, r)]
        combos: list[tuple[State, dict[str, Any], list[Any]]] = [(st, env, [])]
        for k in kids:
            nxt = []
            for s, e, vals in combos:
                for s2, e2, v in self.eval_paths(s, e, k):
                    if isinstance(v, Raised):
                        nxt.append((s2, e2, vals + [v]))
                    else:
                        nxt.append((s2, e2, vals + [v]))
            combos = nxt
        out = []
        for s, e, vals in combos:
            r = next((v for v in vals if isinstance(v, Raised)), None)
            if r is not None:
                out.append((s, e, r))
                continue
            try:
                out.append((s, e, self.eval_simple(s, e, node, vals, where)))
            except Raised as r2:
                r2.where = r2.where or where
                out.append((s, e, r2))
        return out

    def operand_nodes(self, node: ast.expr) -> list[ast.expr] | None:
        if isinstance(node, ast.BinOp):
            return [node.left, node.right]
        if isinstance(node, ast.UnaryOp):
            return [node.operand]
        if isinstance(node, ast.Compare):
            return [node.left] + node.comparators
        if isinstance(node, (ast.Tuple, ast.List)):
            if any(isinstance(x, ast.Starred) for x in node.elts):
                return None
            return list(node.elts)
        if isinstance(node, ast.Subscript):
            sl = node.slice
            parts = [node.value]
            if isinstance(sl, ast.Slice):
                parts += [x for x in (sl.lower, sl.upper) if x is not None]
                if sl.step is not None:
                    return None
            else:
                parts.append(sl)
            return parts
        if isinstance(node, ast.Attribute):
            return [node.value]
        if isinstance(node, ast.Dict):
            if any(k is None for k in node.keys):
                return None
            return [x for kv in zip(node.keys, node.values) for x in kv]
        return None

    def eval_simple(self, st: State, env: dict[str, Any], node: ast.expr, vals: list[Any], where: str) -> Any:
        fn: FuncInfo = env["__fn__"]
        if isinstance(node, ast.Constant):
            return self.lift(node.value)
        if isinstance(node, ast.Name):
            if node.id in env:
                return env[node.id]
            r = self.m.lookup_in_module(fn.module, node.id)
            if isinstance(r, ClassInfo):
                return ClassV(r)
            if isinstance(r, FuncInfo):
                return FuncV(r)
            if isinstance(r, tuple) and r[0] == "const":
                try:
                    return self.lift(self.m.fold(r[1], r[2]))
                except NotConst:
                    return UnknownV(node.id)
            if isinstance(r, tuple) and r[0] == "external":
                return ConstV(("external", r[1]))
            if isinstance(r, ModuleInfo):
                return ConstV(("module", r))
            if node.id in ("int", "bytes", "list", "dict", "tuple", "bool", "bytearray", "str", "len", "zip", "range", "max", "min", "isinstance", "hex", "repr", "all", "any"):
                return ConstV(("builtin", node.id))
            return UnknownV(f"name {node.id}")
        if isinstance(node, ast.Attribute):
            return self.get_attr(st, env, vals[0], node.attr, where, node)
        if isinstance(node, ast.BinOp):
            return self.binop(node.op, vals[0], vals[1], where, node)
        if isinstance(node, ast.UnaryOp):
            if isinstance(node.op, ast.Not):
                d = self.decide(st, vals[0], node, where)
                if d is not None:
                    return ConstV(not d)
                if isinstance(vals[0], CondV):
                    return vals[0].invert()
                return CondV(None, None)
            c = as_const_int(vals[0])
            if c is not None and isinstance(node.op, ast.USub):
                return IntV("lin", lin=Lin(-c))
            return opaque(ast.unparse(node))
        if isinstance(node, ast.Compare):
            return self.compare(st, node, vals, where)
        if isinstance(node, ast.Tuple):
            return TupleV(vals)
        if isinstance(node, ast.List):
            return ListV(None, None, list(vals))
        if isinstance(node, ast.Dict):
            if len(node.keys) == 0:
                return DictV(None, None, None)
            if len(node.keys) == 1:
                return DictV(vals[0], vals[1], None)
            raise AnalysisError(f"{where}: multi-entry dict literal")
        if isinstance(node, ast.Subscript):
            return self.subscript(st, node, vals, where)
        if isinstance(node, ast.JoinedStr):
            return ConstV("<f-string>")
        if isinstance(node, ast.DictComp):
            return self.dictcomp(st, env, node, where)
        if isinstance(node, ast.GeneratorExp):
            return self.genexp(st, env, node, where)
        raise AnalysisError(f"{where}: unsupported expression {type(node).__name__}: {ast.unparse(node)[:80]}")

    # ..................................................................... attributes
    def get_attr(self, st: State, env: dict[str, Any], owner: Any, attr: str, where: str, node: ast.AST) -> Any:
        if isinstance(owner, ObjV):
            obj = st.heap[owner.oid]
            if attr in obj.fields:
                return obj.fields[attr]
            return self.class_attr(st, env, obj.cls, attr, owner, where)
        if isinstance(owner, ClassV):
            return self.class_attr(st, env, owner.cls, attr, None, where, cls_val=owner)
        if isinstance(owner, ConstV) and isinstance(owner.value, tuple) and owner.value[0] == "module":
            r = self.m.lookup_in_module(owner.value[1], attr)
            return self.entity_value(r, attr)
        if isinstance(owner, UnknownV):
            if owner.why.startswith("name "):
                # module alias (struct.pack, service.X)
                fn: FuncInfo = env["__fn__"]
                base = owner.why[5:]
                r = self.m.lookup_in_module(fn.module, base)
                if isinstance(r, ModuleInfo):
                    return self.entity_value(self.m.lookup_in_module(r, attr), attr)
                return ConstV(("external", f"{base}.{attr}"))
            return UnknownV(f"{owner.why}.{attr}")
        if isinstance(owner, IntV) and attr in ("name", "value"):
            return owner if attr == "value" else ConstV("<enum name>")
        if isinstance(owner, (IntV, BytesV, ListV, DictV)):
            return BoundBuiltin(owner, attr)
        if isinstance(owner, ConstV):
            base = owner.value[1] if isinstance(owner.value, tuple) else owner.value
            return ConstV(("external", f"{base}.{attr}"))
        if isinstance(owner, PduV):
            return BoundBuiltin(raw_slice(Lin(0), None), attr)
        raise AnalysisError(f"{where}: attribute {attr} of {owner!r}")

    def entity_value(self, r: Any, name: str) -> Any:
        if isinstance(r, ClassInfo):
            return ClassV(r)
        if isinstance(r, FuncInfo):
            return FuncV(r)
        if isinstance(r, ModuleInfo):
            return ConstV(("module", r))
        if isinstance(r, tuple) and r[0] == "const":
            try:
                return self.lift(self.m.fold(r[1], r[2]))
            except NotConst:
                return UnknownV(name)
        return ConstV(("external", name))

    CLASS_KW = {
        "SERVICE_ID": "service_id", "_MINIMAL_LENGTH": "minimal_length", "_MAXIMAL_LENGTH": "maximal_length",
        "SUB_FUNCTION_ID": "sub_function_id", "RESPONSE_TYPE": "response_type", "RESPONSE_CODE": "response_code",
    }

    def class_attr(self, st: State, env: dict[str, Any], cls: ClassInfo, attr: str, self_obj: ObjV | None,
                   where: str, cls_val: Any = None) -> Any:
        m = self.m
        if attr in self.CLASS_KW or attr == "RESPONSE_SERVICE_ID":
            kw = "service_id" if attr == "RESPONSE_SERVICE_ID" else self.CLASS_KW[attr]
            for c in m.mro(cls):
                if kw in c.keywords:
                    v = m.class_kw(c, kw)
                    if isinstance(v, ClassInfo):
                        return ClassV(v)
                    if attr == "RESPONSE_SERVICE_ID":
                        return NoneV() if v is None else int_const(v + 0x40)
                    return self.lift(v)
            return UnknownV(f"{cls.name}.{attr}")
        f = m.resolve_method(cls, attr)
        if f is not None:
            if f.is_property:
                if self_obj is None:
                    return UnknownV(f"property {attr} on class")
                outs = self.call_function(st, f, [], {}, self_val=self_obj, depth=env.get("__depth__", 0) + 1)
                if len(outs) != 1:
                    raise AnalysisError(f"{where}: property {f.qualname} forks")
                s2, v = outs[0]
                if isinstance(v, Raised):
                    raise v
                return v
            if f.is_staticmethod:
                return BoundMethod(None, f)
            if f.is_classmethod:
                return BoundMethod(cls_val or ClassV(cls), f)
            return BoundMethod(self_obj, f)
        for c in m.mro(cls):
            if attr in c.class_attrs:
                try:
                    return self.lift(m.fold(c.module, c.class_attrs[attr], cls=c))
                except NotConst:
                    r = m.resolve_expr(c.module, c.class_attrs[attr], c)
                    return self.entity_value(r, attr)
            if attr in c.nested:
                return ClassV(c.nested[attr])
        members = m.enum_members(cls)
        if members is not None and attr in members:
            v = self.lift(members[attr])
            return v
        if attr == "__name__":
            return ConstV(cls.name)
        raise Raised("AttributeError", None, f"{where}: {cls.qualname} has no attribute {attr}")

    # ......................................................................... calls
    def eval_call(self, st: State, env: dict[str, Any], node: ast.Call, where: str) -> list[tuple[State, dict[str, Any], Any]]:
        fn: FuncInfo = env["__fn__"]
        depth = env.get("__depth__", 0)
        # super().__init__(...) / super()._check_pdu(...)
        if isinstance(node.func, ast.Attribute) and isinstance(node.func.value, ast.Call) and ast.unparse(node.func.value.func) == "super":
            first = fn.params()[0] if fn.params() else None
            recv = env.get(first)
            if isinstance(recv, ObjV):
                dyn = st.heap[recv.oid].cls
            elif isinstance(recv, ClassV):
                dyn = recv.cls
            else:
                raise AnalysisError(f"{where}: super() without receiver")
            target = self.m.resolve_method(dyn, node.func.attr, after=fn.cls)
            if target is None:
                if node.func.attr in ("__init__", "__init_subclass__"):
                    return [(st, env, NoneV())]
                raise AnalysisError(f"{where}: super().{node.func.attr} unresolved")
            return self.apply(st, env, BoundMethod(recv, target), node, where)
        out = []
        for s, e, callee in self.eval_paths(st, env, node.func):
            if isinstance(callee, Raised):
                out.append((s, e, callee))
                continue
            out.extend(self.apply(s, e, callee, node, where))
        return out

    def eval_args(self, st: State, env: dict[str, Any], node: ast.Call, where: str) -> list[tuple[State, dict[str, Any], list[Any], dict[str, Any]]]:
        combos: list[tuple[State, dict[str, Any], list[Any], dict[str, Any]]] = [(st, env, [], {})]
        for a in node.args:
            nxt = []
            for s, e, pos, kw in combos:
                inner = a.value if isinstance(a, ast.Starred) else a
                for s2, e2, v in self.eval_paths(s, e, inner):
                    if isinstance(v, Raised):
                        raise v
                    if isinstance(a, ast.Starred):
                        if isinstance(v, TupleV):
                            nxt.append((s2, e2, pos + list(v.items), kw))
                        else:
                            nxt.append((s2, e2, pos + [StarV(v)], kw))
                    else:
                        nxt.append((s2, e2, pos + [v], kw))
            combos = nxt
        for k in node.keywords:
            nxt = []
            for s, e, pos, kw in combos:
                for s2, e2, v in self.eval_paths(s, e, k.value):
                    if isinstance(v, Raised):
                        raise v
                    if k.arg is None:
                        raise AnalysisError(f"{where}: **kwargs call")
                    nxt.append((s2, e2, pos, {**kw, k.arg: v}))
            combos = nxt
        return combos

    def apply(self, st: State, env: dict[str, Any], callee: Any, node: ast.Call, where: str) -> list[tuple[State, dict[str, Any], Any]]:
        depth = env.get("__depth__", 0)
        out: list[tuple[State, dict[str, Any], Any]] = []
        try:
            combos = self.eval_args(st, env, node, where)
        except Raised as r:
            r.where = r.where or where
            return [(st, env, r)]
        for s, e, pos, kw in combos:
            try:
                if isinstance(callee, ClassV):
                    out.extend((s2, e, v) for s2, v in self.instantiate(s, callee.cls, pos, kw, where, depth))
                elif isinstance(callee, BoundMethod):
                    for s2, v in self.call_function(s, callee.func, pos, kw, self_val=callee.obj, depth=depth + 1):
                        out.append((s2, e, v))
                elif isinstance(callee, FuncV):
                    for s2, v in self.call_function(s, callee.func, pos, kw, depth=depth + 1):
                        out.append((s2, e, v))
                elif isinstance(callee, BoundBuiltin):
                    out.append((s, e, self.builtin_method(s, e, callee, pos, kw, where, node)))
                elif isinstance(callee, ConstV) and isinstance(callee.value, tuple):
                    out.append((s, e, self.builtin(s, e, callee.value, pos, kw, where, node)))
                elif isinstance(callee, UnknownV):
                    out.append((s, e, UnknownV(f"call {ast.unparse(node.func)}")))
                else:
                    raise AnalysisError(f"{where}: call of {callee!r}")
            except Raised as r:
                r.where = r.where or where
                out.append((s, e, r))
        return out

    def instantiate(self, st: State, cls: ClassInfo, pos: list[Any], kw: dict[str, Any], where: str, depth: int) -> list[tuple[State, Any]]:
        members = self.m.enum_members(cls)
        if members is not None:
            if len(pos) != 1:
                raise AnalysisError(f"{where}: enum call arity")
            v = pos[0]
            if isinstance(v, IntV):
                v = copy.copy(v)
                v.enum = cls.qualname
            # an Enum call with a non-member raises ValueError unless _missing_ is defined: record as a guard
            st.guards.append(("enum", cls.qualname, pos[0]))
            return [(st, v)]
        if any(isinstance(p, StarV) for p in pos):
            raise AnalysisError(f"{where}: starred constructor argument of unknown shape")
        init = self.m.resolve_method(cls, "__init__")
        st = st.clone() if False else st
        oid = st.next_id
        st.next_id += 1
        obj = ObjV(cls, {}, oid)
        st.heap[oid] = obj
        ref = ObjV(cls, {}, oid)
        if init is None:
            if pos or kw:
                return [(st, Raised("TypeError", None, f"{where}: {cls.name}() takes no arguments"))]
            return [(st, ref)]
        outs = []
        for s2, v in self.call_function(st, init, pos, kw, self_val=ref, depth=depth + 1):
            outs.append((s2, v if isinstance(v, Raised) else ObjV(cls, {}, oid)))
        return outs

    # ...................................................................... builtins
    def builtin(self, st: State, env: dict[str, Any], ident: tuple, pos: list[Any], kw: dict[str, Any], where: str, node: ast.Call) -> Any:
        kind, name = ident[0], ident[1]
        if kind == "module":
            raise AnalysisError(f"{where}: calling a module")
        short = name.split(".")[-1] if isinstance(name, str) else name
        if name in ("pack", "struct.pack"):
            return self.do_pack(st, pos, where, node)
        if short == "from_bytes":
            v = pos[0]
            order = pos[1] if len(pos) > 1 else kw.get("byteorder", ConstV("big"))
            if isinstance(v, PduV):
                v = raw_slice(Lin(0), None)
            if isinstance(v, BytesV) and len(v.segs) == 1 and v.segs[0].kind == "raw":
                lo, hi = v.segs[0].val
                if not (isinstance(order, ConstV) and order.value == "big"):
                    return opaque(f"from_bytes with byte order {order!r}")
                if hi is not None and (hi - lo) == 1:
                    return pdu_byte(lo)
                return IntV("fb", lo=lo, hi=hi)
            return opaque("from_bytes(?)")
        if short == "len":
            v = pos[0]
            if isinstance(v, BytesV):
                n = bytes_len(v)
                return IntV("lin", lin=n) if n is not None else opaque("len of variable bytes")
            if isinstance(v, ListV):
                if v.items is not None:
                    return int_const(len(v.items))
                return IntV("lin", lin=Lin.sym(("count", v.loop.ident)))
            if isinstance(v, PduV):
                return IntV("lin", lin=L)
            return opaque(f"len({v!r})")
        if short == "int":
            v = pos[0]
            if isinstance(v, CondV):
                return v.as_int()
            if isinstance(v, IntV):
                return v
            if isinstance(v, ConstV) and isinstance(v.value, bool):
                return int_const(int(v.value))
            return opaque("int(?)")
        if short == "bool":
            return pos[0]
        if short in ("bytes", "bytearray"):
            if not pos:
                return BytesV([])
            v = pos[0]
            if isinstance(v, BytesV):
                return v
            if isinstance(v, ListV) and v.items is not None:
                segs = []
                for x in v.items:
                    if not isinstance(x, IntV):
                        raise AnalysisError(f"{where}: bytes([..]) of non-int {x!r}")
                    segs.append(Seg(Lin(1), "int", x, code="bytes([x])"))
                return BytesV(segs)
            if isinstance(v, PduV):
                return raw_slice(Lin(0), None)
            raise AnalysisError(f"{where}: bytes({v!r})")
        if short == "list":
            return pos[0] if pos else ListV(None, None, [])
        if short == "zip":
            t = TupleV(pos)
            t._zip = True  # type: ignore[attr-defined]
            return t
        if short == "isinstance":
            return self.do_isinstance(pos[0], pos[1], where)
        if short in ("max", "min", "hex", "repr", "ceil", "str"):
            return opaque(f"{short}(...)")
        if short in ("all", "any"):
            return CondV(None, None)
        if kind == "external":
            return UnknownV(f"call {name}")
        raise AnalysisError(f"{where}: builtin {name}")

    def do_isinstance(self, v: Any, t: Any, where: str) -> Any:
        names: list[str] = []

        def tnames(x: Any) -> None:
            if isinstance(x, TupleV):
                for y in x.items:
                    tnames(y)
            elif isinstance(x, ConstV) and isinstance(x.value, tuple):
                names.append(str(x.value[1]).split(".")[-1])
            elif isinstance(x, ClassV):
                names.append("class:" + x.cls.qualname)
            elif isinstance(x, UnionV):
                for y in x.items:
                    tnames(y)
            else:
                names.append("?")
        tnames(t)
        kind = None
        if isinstance(v, IntV):
            kind = {"int"} | ({"bool"} if v.is_bool else set())
        elif isinstance(v, CondV) or (isinstance(v, ConstV) and isinstance(v.value, bool)):
            kind = {"bool", "int"}
        elif isinstance(v, (BytesV, PduV)):
            kind = {"bytes"}
        elif isinstance(v, ListV):
            kind = {"list", "Sequence"}
        elif isinstance(v, TupleV):
            kind = {"tuple", "Sequence"}
        elif isinstance(v, DictV):
            kind = {"dict"}
        elif isinstance(v, NoneV):
            kind = set()
        elif isinstance(v, ObjV):
            res = False
            for n in names:
                if n.startswith("class:"):
                    base = self.m.classes.get(n[6:])
                    if base is not None and self.m.is_subclass(v.cls, base):
                        res = True
            return ConstV(res)
        if kind is None:
            return CondV(None, None)
        if "?" in names:
            return CondV(None, None)
        return ConstV(any(n in kind for n in names))

    def builtin_method(self, st: State, env: dict[str, Any], bm: "BoundBuiltin", pos: list[Any], kw: dict[str, Any], where: str, node: ast.Call) -> Any:
        o, name = bm.owner, bm.name
        if isinstance(o, IntV) and name == "to_bytes":
            width = as_lin(pos[0])
            order = pos[1] if len(pos) > 1 else kw.get("byteorder", ConstV("big"))
            endian = order.value if isinstance(order, ConstV) else "?"
            return BytesV([Seg(width, "int", o, code="to_bytes", endian=endian)])
        if isinstance(o, IntV) and name == "bit_length":
            return opaque("bit_length")
        if isinstance(o, ListV) and name == "append":
            if o.items is None:
                raise AnalysisError(f"{where}: append to abstract list")
            o.items.append(pos[0])
            return NoneV()
        if isinstance(o, DictV) and name == "items":
            d = DictV(o.key, o.val, o.loop)
            d._items = True  # type: ignore[attr-defined]
            return d
        if isinstance(o, BytesV) and name == "hex":
            return ConstV("<hex>")
        if isinstance(o, BytesV) and name == "join":
            g = pos[0]
            if isinstance(g, GenV):
                return BytesV([Seg(None, "repeat", Repeat(g.loop, g.elem.segs))])
            raise AnalysisError(f"{where}: join of {g!r}")
        raise AnalysisError(f"{where}: method {name} of {o!r}")

    PACK_SIZES = {"B": 1, "b": 1, "H": 2, "h": 2, "I": 4, "i": 4, "L": 4, "l": 4, "Q": 8, "q": 8, "x": 1}

    def do_pack(self, st: State, pos: list[Any], where: str, node: ast.Call) -> Any:
        fmt_node = node.args[0]
        tokens = self.parse_fmt(st, fmt_node, pos[0], where)
        endian = tokens[0]
        codes = tokens[1]
        args = pos[1:]
        segs: list[Seg] = []
        ai = 0
        for count, code in codes:
            if code == "x":
                segs.append(Seg(Lin(count), "const", bytes(count)))
                continue
            size = self.PACK_SIZES[code]
            if isinstance(count, int):
                for _ in range(count):
                    if ai >= len(args):
                        raise Raised("struct.error", node, f"{where}: pack format {ast.unparse(fmt_node)} expects more arguments than the {len(args)} given")
                    a = args[ai]
                    ai += 1
                    if isinstance(a, StarV):
                        raise Raised("struct.error", node, f"{where}: starred list against fixed-count format code")
                    segs.append(self.pack_seg(a, size, code, endian, where, node))
            else:
                # symbolic repeat count ('lenof', ListV)
                if ai >= len(args) or not isinstance(args[ai], StarV):
                    raise Raised("struct.error", node, f"{where}: repeated format code without starred argument")
                lst = args[ai].v
                ai += 1
                if not isinstance(lst, ListV) or lst.loop is None:
                    raise AnalysisError(f"{where}: starred pack argument of unknown shape {lst!r}")
                if count[1] is not lst and not (isinstance(count[1], ListV) and count[1].loop is not None and count[1].loop.ident == lst.loop.ident):
                    raise Raised("struct.error", node, f"{where}: repeat count and starred list differ")
                segs.append(Seg(None, "repeat", Repeat(lst.loop, [self.pack_seg(lst.elem, size, code, endian, where, node)])))
        if ai != len(args):
            raise Raised("struct.error", node, f"{where}: pack format {ast.unparse(fmt_node)} takes {ai} argument(s) but {len(args)} were given")
        return BytesV(segs)

    def pack_seg(self, a: Any, size: int, code: str, endian: str, where: str, node: ast.AST) -> Seg:
        if isinstance(a, NoneV):
            raise Raised("struct.error", node, f"{where}: None reaches pack code '{code}'")
        if isinstance(a, CondV):
            a = a.as_int()
        if isinstance(a, ConstV) and isinstance(a.value, bool):
            a = int_const(int(a.value))
        if not isinstance(a, IntV):
            if isinstance(a, UnknownV):
                a = opaque(a.why)
            else:
                raise Raised("struct.error", node, f"{where}: non-integer {a!r} reaches pack code '{code}'")
        return Seg(Lin(size), "int", a, code=code, endian=endian if size > 1 else "big")

    def parse_fmt(self, st: State, node: ast.expr, val: Any, where: str) -> tuple[str, list[tuple[Any, str]]]:
        parts: list[Any] = []
        if isinstance(node, ast.Constant) and isinstance(node.value, str):
            parts = [node.value]
        elif isinstance(node, ast.JoinedStr):
            fn_env = None
            for v in node.values:
                if isinstance(v, ast.Constant):
                    parts.append(v.value)
                else:
                    parts.append(v.value)  # ast expr
        else:
            raise AnalysisError(f"{where}: non-literal pack format {ast.unparse(node)}")
        endian = "native"
        codes: list[tuple[Any, str]] = []
        pending: Any = None
        first = True
        for p in parts:
            if isinstance(p, str):
                s = p
                if first and s and s[0] in "@=<>!":
                    endian = {"!": "big", ">": "big", "<": "little", "=": "native", "@": "native"}[s[0]]
                    s = s[1:]
                first = False
                for mnum, code in re.findall(r"(\d*)([a-zA-Z])", s):
                    if code not in self.PACK_SIZES:
                        raise AnalysisError(f"{where}: pack code {code}")
                    if pending is not None:
                        codes.append((pending, code))
                        pending = None
                    else:
                        codes.append((int(mnum) if mnum else 1, code))
            else:
                first = False
                pending = ("lenof_expr", p)
        if pending is not None:
            raise AnalysisError(f"{where}: dangling repeat count in format")
        # resolve lenof_expr lazily by the caller environment: we only support len(self.<list>)
        resolved = []
        for count, code in codes:
            if isinstance(count, tuple):
                e = count[1]
                if not (isinstance(e, ast.Call) and ast.unparse(e.func) == "len"):
                    raise AnalysisError(f"{where}: repeat count {ast.unparse(e)}")
                resolved.append((("lenof", self._fmt_env_eval(e.args[0])), code))
            else:
                resolved.append((count, code))
        return endian, resolved

    _fmt_env: tuple[State, dict[str, Any]] | None = None

    def _fmt_env_eval(self, e: ast.expr) -> Any:
        st, env = self._cur
        return self.eval1(st, env, e)

    # ..................................................................... operators
    def binop(self, op: ast.operator, a: Any, b: Any, where: str, node: ast.AST) -> Any:
        if isinstance(op, ast.BitOr) and (isinstance(a, (ClassV, UnionV)) or (isinstance(a, ConstV) and isinstance(a.value, tuple))):
            items = (a.items if isinstance(a, UnionV) else [a]) + (b.items if isinstance(b, UnionV) else [b])
            return UnionV(items)
        if isinstance(a, (BytesV, PduV)) or isinstance(b, (BytesV, PduV)):
            if isinstance(op, ast.Add):
                a2 = raw_slice(Lin(0), None) if isinstance(a, PduV) else a
                b2 = raw_slice(Lin(0), None) if isinstance(b, PduV) else b
                if not (isinstance(a2, BytesV) and isinstance(b2, BytesV)):
                    raise Raised("TypeError", node, f"{where}: bytes + {b!r}")
                return BytesV(a2.segs + b2.segs)
            raise AnalysisError(f"{where}: bytes operator {type(op).__name__}")
        if isinstance(a, ListV) and isinstance(b, ListV) and isinstance(op, ast.Add):
            if a.items is not None and b.items is not None:
                return ListV(None, None, a.items + b.items)
        if isinstance(a, CondV):
            a = a.as_int()
        if isinstance(b, CondV):
            b = b.as_int()
        if isinstance(a, ConstV) and isinstance(a.value, bool):
            a = int_const(int(a.value))
        if isinstance(b, ConstV) and isinstance(b.value, bool):
            b = int_const(int(b.value))
        if isinstance(a, UnknownV) or isinstance(b, UnknownV):
            return opaque(f"{a!r} {type(op).__name__} {b!r}")
        if isinstance(a, NoneV) or isinstance(b, NoneV):
            raise Raised("TypeError", node, f"{where}: arithmetic on None")
        if not (isinstance(a, IntV) and isinstance(b, IntV)):
            raise AnalysisError(f"{where}: operator {type(op).__name__} on {a!r}, {b!r}")
        return int_binop(op, a, b)

    def compare(self, st: State, node: ast.Compare, vals: list[Any], where: str) -> Any:
        if len(node.ops) == 2:
            # lo <= x <= hi
            c1 = self.compare1(st, node.ops[0], vals[0], vals[1], where, node)
            c2 = self.compare1(st, node.ops[1], vals[1], vals[2], where, node)
            return CondV.conj(c1, c2)
        if len(node.ops) != 1:
            raise AnalysisError(f"{where}: chained comparison")
        return self.compare1(st, node.ops[0], vals[0], vals[1], where, node)

    def compare1(self, st: State, op: ast.cmpop, a: Any, b: Any, where: str, node: ast.AST) -> Any:
        if isinstance(op, (ast.Is, ast.IsNot)):
            if isinstance(b, NoneV) or isinstance(a, NoneV):
                other = a if isinstance(b, NoneV) else b
                if isinstance(other, UnknownV):
                    return CondV(None, None)
                res = isinstance(other, NoneV)
                return ConstV(res if isinstance(op, ast.Is) else not res)
            if isinstance(b, ConstV) and isinstance(b.value, bool):
                if isinstance(a, ConstV) and isinstance(a.value, bool):
                    res = a.value is b.value
                    return ConstV(res if isinstance(op, ast.Is) else not res)
            return CondV(None, None)
        opname = {ast.Eq: "==", ast.NotEq: "!=", ast.Lt: "<", ast.LtE: "<=", ast.Gt: ">", ast.GtE: ">="}.get(type(op))
        if opname is None:
            return CondV(None, None)
        if isinstance(a, CondV):
            a = a.as_int()
        if isinstance(b, CondV):
            b = b.as_int()
        ca, cb = as_const_int(a), as_const_int(b)
        if ca is not None and cb is not None:
            return ConstV(_CMP[opname](ca, cb))
        if opname in ("==", "!=") and isinstance(a, IntV) and isinstance(b, IntV) and a.kind in ("bits", "fb", "lin") and b.kind == a.kind:
            if repr(effective(st, a)) == repr(effective(st, b)):
                return ConstV(opname == "==")
        if isinstance(a, BytesV) and isinstance(b, BytesV) and opname in ("==", "!="):
            return CondV(None, None, text=f"bytes {opname}")
        for x, c, o in ((a, cb, opname), (b, ca, _FLIP[opname])):
            if isinstance(x, IntV) and x.kind in ("bits", "fb") and c is not None and c <= 0:
                if o == "<" or (o == "<=" and c < 0):
                    return ConstV(False)
                if o == ">=" or (o == ">" and c < 0):
                    return ConstV(True)
        # single pdu bit tests:  x >= 2**k  where x < 2**(k+1)
        for x, c, o in ((a, cb, opname), (b, ca, _FLIP[opname])):
            if isinstance(x, IntV) and x.kind == "bits" and c is not None:
                bits = trim_bits(x.bits)
                n = len(bits)
                if o in (">=", "<") and c == 1 << (n - 1) and n >= 1:
                    top = bits[n - 1]
                    cv = CondV(Fact("bits", "==", bits=(top,), const=1), Fact("bits", "==", bits=(top,), const=0), bit=top)
                    return cv if o == ">=" else cv.invert()
                if o in (">", "<=") and c + 1 == 1 << (n - 1) and n >= 2:
                    # integers: x > 2**k - 1  is  x >= 2**k
                    top = bits[n - 1]
                    cv = CondV(Fact("bits", "==", bits=(top,), const=1), Fact("bits", "==", bits=(top,), const=0), bit=top)
                    return cv if o == ">" else cv.invert()
                if o in ("==", "!="):
                    if c >> n:
                        return ConstV(o == "!=")
                    cv = CondV(Fact("bits", "==", bits=bits, const=c), Fact("bits", "!=", bits=bits, const=c))
                    if n == 1 or all(bb in (0, 1) for bb in bits[1:]) and n >= 1 and all((c >> i) & 1 == bits[i] for i in range(1, n)):
                        cv.bit = bits[0] if c & 1 else None
                    return cv if o == "==" else cv.invert()
                if o == ">" and c == 0:
                    cv = CondV(Fact("bits", "!=", bits=bits, const=0), Fact("bits", "==", bits=bits, const=0))
                    return cv
                if o in ("<=", ">=") and ((o == "<=" and c >= (1 << n) - 1) or (o == ">=" and c <= 0)):
                    return ConstV(True)
                lim = c + 1 if o == "<=" else c if o == "<" else None
                if lim is not None and lim > 0 and lim & (lim - 1) == 0 and lim.bit_length() - 1 < n:
                    k = lim.bit_length() - 1
                    hi_bits = tuple(bits[k:])
                    return CondV(Fact("bits", "==", bits=hi_bits, const=0), Fact("bits", "!=", bits=hi_bits, const=0))
        for x, c, o in ((a, cb, opname), (b, ca, _FLIP[opname])):
            if isinstance(x, IntV) and x.kind == "mod" and c == 0 and o in ("==", "!=", ">"):
                zero = Fact("len", "mod==0", lin=x.lin, text=repr(x.lo))
                nonz = Fact("len", "mod!=0", lin=x.lin, text=repr(x.lo))
                return CondV(zero, nonz) if o == "==" else CondV(nonz, zero)
        la, lb = as_lin(a), as_lin(b)
        if la is not None and lb is not None:
            d = la - lb
            if d.coeff("L") != 0:
                neg = {"==": "!=", "!=": "==", "<": ">=", "<=": ">", ">": "<=", ">=": "<"}[opname]
                return CondV(Fact("len", opname, lin=d), Fact("len", neg, lin=d))
        return CondV(None, None, text=f"{a!r} {opname} {b!r}")

    def subscript(self, st: State, node: ast.Subscript, vals: list[Any], where: str) -> Any:
        base = vals[0]
        sl = node.slice
        if isinstance(sl, ast.Slice):
            idx = 1
            lo = hi = None
            if sl.lower is not None:
                lo = as_lin(vals[idx]); idx += 1
                if lo is None:
                    raise AnalysisError(f"{where}: non-linear slice bound in {ast.unparse(node)}")
            if sl.upper is not None:
                hi = as_lin(vals[idx]); idx += 1
                if hi is None:
                    raise AnalysisError(f"{where}: non-linear slice bound in {ast.unparse(node)}")
            lo = lo if lo is not None else Lin(0)
            if isinstance(base, PduV):
                return raw_slice(lo, hi)
            if isinstance(base, BytesV) and len(base.segs) == 1 and base.segs[0].kind == "raw":
                blo, bhi = base.segs[0].val
                nlo = blo + lo
                if hi is not None:
                    nhi = blo + hi
                else:
                    nhi = bhi
                return raw_slice(nlo, nhi)
            if isinstance(base, UnknownV):
                return UnknownV("slice")
            raise AnalysisError(f"{where}: slice of {base!r}")
        i = vals[1]
        if isinstance(base, PduV):
            li = as_lin(i)
            if li is None:
                raise AnalysisError(f"{where}: pdu index {i!r}")
            if li.is_const:
                st.guards.append(("index", li.const, where))
            return pdu_byte(li)
        if isinstance(base, BytesV) and len(base.segs) == 1 and base.segs[0].kind == "raw":
            li = as_lin(i)
            if li is None:
                raise AnalysisError(f"{where}: index {i!r}")
            return pdu_byte(base.segs[0].val[0] + li)
        if isinstance(base, TupleV):
            c = as_const_int(i)
            if c is None:
                raise AnalysisError(f"{where}: tuple index {i!r}")
            return base.items[c]
        if isinstance(base, ListV):
            c = as_const_int(i)
            if base.items is not None and c is not None:
                return base.items[c]
            if base.loop is not None and c is not None:
                return subst_loop(base.elem, base.loop, c)
            raise AnalysisError(f"{where}: list index {i!r}")
        if isinstance(base, (ClassV, ConstV, UnionV)):
            return ConstV(("external", "generic-alias"))
        if isinstance(base, UnknownV):
            return UnknownV(f"{base.why}[..]")
        if isinstance(base, DictV):
            return UnknownV("dict lookup")
        raise AnalysisError(f"{where}: subscript of {base!r}")

    def dictcomp(self, st: State, env: dict[str, Any], node: ast.DictComp, where: str) -> Any:
        if len(node.generators) != 1 or node.generators[0].ifs:
            raise AnalysisError(f"{where}: complex dict comprehension")
        g = node.generators[0]
        e2, loop = self.bind_comprehension(st, env, g, where)
        return DictV(self.eval1(st, e2, node.key), self.eval1(st, e2, node.value), loop)

    def genexp(self, st: State, env: dict[str, Any], node: ast.GeneratorExp, where: str) -> Any:
        if len(node.generators) != 1 or node.generators[0].ifs:
            raise AnalysisError(f"{where}: complex generator expression")
        g = node.generators[0]
        e2, loop = self.bind_comprehension(st, env, g, where)
        elem = self.eval1(st, e2, node.elt)
        if isinstance(elem, BytesV):
            return GenV(elem, loop)
        return CondV(None, None)

    def bind_comprehension(self, st: State, env: dict[str, Any], g: ast.comprehension, where: str) -> tuple[dict[str, Any], Loop]:
        e2 = dict(env)
        it = g.iter
        if isinstance(it, ast.Call) and ast.unparse(it.func) == "range":
            args = [as_lin(self.eval1(st, env, a)) for a in it.args]
            if any(a is None for a in args):
                raise AnalysisError(f"{where}: range bounds")
            self.loop_counter += 1
            start, stop, stride = (Lin(0), args[0], Lin(1)) if len(args) == 1 else (args[0], args[1], Lin(1)) if len(args) == 2 else tuple(args)
            loop = Loop(f"i{self.loop_counter}", start, stop, stride, self.loop_counter)
            self.assign(st, e2, g.target, IntV("lin", lin=Lin.sym(loop.var)), where)
            return e2, loop
        src = self.eval1(st, env, it)
        r = self.iter_elems(src, where)
        if r is None:
            self.loop_counter += 1
            loop = Loop(f"u{self.loop_counter}", Lin(0), Lin.sym(f"n{self.loop_counter}"), Lin(1), self.loop_counter)
            if isinstance(g.target, (ast.Tuple, ast.List)):
                for x in g.target.elts:
                    self.assign(st, e2, x, UnknownV("element"), where)
            else:
                self.assign(st, e2, g.target, UnknownV("element"), where)
            return e2, loop
        loop, elem = r
        self.assign(st, e2, g.target, elem, where)
        return e2, loop


# override eval_paths entry to record the current (state, env) for format-string evaluation
_orig_eval_call = Interp.eval_call


def _eval_call(self: Interp, st: State, env: dict[str, Any], node: ast.Call, where: str):  # type: ignore[no-untyped-def]
    prev = getattr(self, "_cur", None)
    self._cur = (st, env)
    try:
        return _orig_eval_call(self, st, env, node, where)
    finally:
        self._cur = prev


Interp.eval_call = _eval_call  # type: ignore[method-assign]


@dataclass
class PduV:
    def __repr__(self) -> str:
        return "pdu"


@dataclass
class StarV:
    v: Any


@dataclass
class UnionV:
    items: list[Any]


@dataclass
class GenV:
    elem: BytesV
    loop: Loop


@dataclass
class BoundBuiltin:
    owner: Any
    name: str


@dataclass
class CondV:
    """Undecided boolean: optional facts for the true / false outcome, optional single source bit."""
    fact: Fact | None
    neg: Fact | None
    bit: Any = None
    text: str = ""
    decided: bool | None = None
    inverted: bool = False
    parts: list["CondV"] | None = None

    def negated(self) -> Fact | None:
        return self.neg

    def invert(self) -> "CondV":
        c = CondV(self.neg, self.fact, None, self.text, None if self.decided is None else not self.decided)
        if self.bit is not None:
            c.bit = ("not", self.bit) if not (isinstance(self.bit, tuple) and self.bit[0] == "not") else self.bit[1]
        return c

    def as_int(self) -> IntV:
        if self.bit is not None and not (isinstance(self.bit, tuple) and self.bit[0] == "not"):
            return IntV("bits", bits=(self.bit,) + (0,) * 7, is_bool=True)
        return opaque(f"bool({self.text or self.fact})", is_bool=True)

    @staticmethod
    def conj(a: Any, b: Any) -> Any:
        for x in (a, b):
            if isinstance(x, ConstV) and not x.value:
                return ConstV(False)
        if isinstance(a, ConstV):
            return b
        if isinstance(b, ConstV):
            return a
        return CondV(None, None, text=f"{a.text or a.fact} and {b.text or b.fact}")


_CMP = {"==": lambda a, b: a == b, "!=": lambda a, b: a != b, "<": lambda a, b: a < b, "<=": lambda a, b: a <= b,
        ">": lambda a, b: a > b, ">=": lambda a, b: a >= b}
_FLIP = {"==": "==", "!=": "!=", "<": ">", "<=": ">=", ">": "<", ">=": "<="}


def _load(t: ast.expr) -> ast.expr:
    t2 = copy.deepcopy(t)
    for n in ast.walk(t2):
        if hasattr(n, "ctx"):
            n.ctx = ast.Load()
    return t2


def env_update(dst: dict[str, Any], src: dict[str, Any]) -> None:
    pass


def effective(st: "State", v: Any) -> Any:
    """Replace bits that the path's facts pin to a constant by that constant (and drop leading zeros)."""
    if isinstance(v, IntV) and v.kind == "bits":
        bits = []
        for b in v.bits:
            if isinstance(b, tuple):
                pin = st.pinned(b)
                bits.append(pin if pin is not None else b)
            else:
                bits.append(b)
        return IntV("bits", bits=trim_bits(tuple(bits)))
    return v


def subst_loop(v: Any, loop: Loop, index: int) -> Any:
    """Element `index` of a loop-built list: substitute counter = start + index*stride."""
    val = loop.start + loop.stride.scale(index)
    return subst_sym(v, loop.var, val)


def subst_sym(v: Any, sym: str, val: Lin) -> Any:
    if isinstance(v, IntV):
        w = copy.copy(v)
        if v.kind == "bits":
            w.bits = tuple((("p", b[1].subst(sym, val), b[2]) if isinstance(b, tuple) and b[0] == "p" else b) for b in v.bits)
        elif v.kind == "fb":
            w.lo = v.lo.subst(sym, val)
            w.hi = None if v.hi is None else v.hi.subst(sym, val)
        elif v.kind == "lin":
            w.lin = v.lin.subst(sym, val)
        return w
    if isinstance(v, BytesV):
        return BytesV([subst_seg(s, sym, val) for s in v.segs])
    if isinstance(v, TupleV):
        return TupleV([subst_sym(x, sym, val) for x in v.items])
    return v


def subst_seg(s: Seg, sym: str, val: Lin) -> Seg:
    w = None if s.width is None else s.width.subst(sym, val)
    if s.kind == "raw":
        lo, hi = s.val
        return Seg(w, "raw", (lo.subst(sym, val), None if hi is None else hi.subst(sym, val)), s.code, s.endian)
    if s.kind == "int":
        return Seg(w, "int", subst_sym(s.val, sym, val), s.code, s.endian)
    return s


# --------------------------------------------------------------------------- integer bit-field algebra


def int_binop(op: ast.operator, a: IntV, b: IntV) -> IntV:
    ca, cb = as_const_int(a), as_const_int(b)
    name = type(op).__name__
    if ca is not None and cb is not None:
        try:
            from .model import _BINOPS
            r = _BINOPS[type(op)](ca, cb)
            if isinstance(r, int):
                return int_const(r) if r >= 0 else IntV("lin", lin=Lin(r))
        except Exception:  # noqa: BLE001
            pass
        return opaque(f"{ca} {name} {cb}")
    res_bool = a.is_bool and b.is_bool
    if a.kind == "bits" or b.kind == "bits":
        r = bits_binop(op, a, b, ca, cb)
        if r is not None:
            return r
    la, lb = as_lin(a), as_lin(b)
    if la is not None and lb is not None and isinstance(op, ast.Mod) and la.coeff("L") != 0:
        return IntV("mod", lin=la, lo=lb)
    if la is not None and lb is not None:
        if isinstance(op, ast.Add):
            return IntV("lin", lin=la + lb)
        if isinstance(op, ast.Sub):
            return IntV("lin", lin=la - lb)
        if isinstance(op, ast.Mult) and (la.is_const or lb.is_const):
            return IntV("lin", lin=lb.scale(la.const) if la.is_const else la.scale(lb.const))
    return opaque(f"{a!r} {name} {b!r}")


def _pow2(c: int | None) -> int | None:
    if c is not None and c > 0 and c & (c - 1) == 0:
        return c.bit_length() - 1
    return None


def bits_binop(op: ast.operator, a: IntV, b: IntV, ca: int | None, cb: int | None) -> IntV | None:
    def mk(bits: list) -> IntV:
        bits = list(bits)
        while len(bits) < 8:
            bits.append(0)
        return IntV("bits", bits=tuple(bits))

    if a.kind == "bits" and cb is not None:
        ab = list(a.bits)
        if isinstance(op, ast.Mod) and _pow2(cb) is not None:
            return mk(ab[: _pow2(cb)])
        if isinstance(op, ast.FloorDiv) and _pow2(cb) is not None:
            return mk(ab[_pow2(cb):])
        if isinstance(op, ast.RShift):
            return mk(ab[cb:])
        if isinstance(op, ast.LShift):
            return mk([0] * cb + ab)
        if isinstance(op, ast.Mult) and _pow2(cb) is not None:
            return mk([0] * _pow2(cb) + ab)
        if isinstance(op, ast.BitAnd):
            return mk([x if (cb >> i) & 1 else 0 for i, x in enumerate(ab)])
    if b.kind == "bits" and ca is not None:
        bb = list(b.bits)
        if isinstance(op, ast.Mult) and _pow2(ca) is not None:
            return mk([0] * _pow2(ca) + bb)
        if isinstance(op, ast.BitAnd):
            return mk([x if (ca >> i) & 1 else 0 for i, x in enumerate(bb)])
    if a.kind == "bits" and b.kind == "bits":
        ab, bb = list(a.bits), list(b.bits)
        n = max(len(ab), len(bb))
        ab += [0] * (n - len(ab))
        bb += [0] * (n - len(bb))
        if isinstance(op, (ast.BitOr, ast.Add, ast.BitXor)):
            if all(x == 0 or y == 0 for x, y in zip(ab, bb)):
                return mk([x if y == 0 else y for x, y in zip(ab, bb)])
            return None
        if isinstance(op, ast.BitAnd):
            out = []
            for x, y in zip(ab, bb):
                if x == 0 or y == 0:
                    out.append(0)
                elif x == 1:
                    out.append(y)
                elif y == 1 or x == y:
                    out.append(x)
                else:
                    return None
            return mk(out)
        if isinstance(op, ast.Sub):
            # a - (a % 2**k): clears the low k bits
            k = 0
            while k < n and bb[k] == ab[k] and bb[k] != 0:
                k += 1
            if all(y == 0 for y in bb[k:]) and all((y == ab[i]) for i, y in enumerate(bb[:k])):
                return mk([0] * k + ab[k:])
            if all(y == 0 for y in bb):
                return mk(ab)
            return None
    return None
