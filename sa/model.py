"""E1: program model of /repo/src/gallia built from the syntax trees only.

Nothing from gallia is imported or executed.  The model resolves names through
import aliases, builds the class table with a static C3 MRO, folds constants
(including the repo's own IntEnum tables) and records attribute types.
"""

from __future__ import annotations

import ast
import os
import struct
from dataclasses import dataclass, field
from pathlib import Path
from typing import Any, Iterator


class AnalysisError(Exception):
    """The analysis cannot proceed soundly (vanished anchor, unknown idiom ...)."""


class NotConst(Exception):
    pass


def repo_root() -> Path:
    return Path(os.environ.get("VERIF_REPO", "/repo"))


@dataclass
class FuncInfo:
    name: str
    qualname: str
    node: ast.FunctionDef | ast.AsyncFunctionDef
    module: "ModuleInfo"
    cls: "ClassInfo | None" = None
    decorators: list[str] = field(default_factory=list)

    @property
    def is_async(self) -> bool:
        return isinstance(self.node, ast.AsyncFunctionDef)

    @property
    def is_property(self) -> bool:
        return "property" in self.decorators

    @property
    def is_classmethod(self) -> bool:
        return "classmethod" in self.decorators

    @property
    def is_staticmethod(self) -> bool:
        return "staticmethod" in self.decorators

    @property
    def is_abstract(self) -> bool:
        return "abstractmethod" in self.decorators

    @property
    def loc(self) -> str:
        return f"{self.module.relpath}:{self.node.lineno}"

    def params(self) -> list[str]:
        a = self.node.args
        return [x.arg for x in a.posonlyargs + a.args]

    def param_defaults(self) -> dict[str, ast.expr]:
        a = self.node.args
        pos = a.posonlyargs + a.args
        out: dict[str, ast.expr] = {}
        for p, d in zip(pos[len(pos) - len(a.defaults):], a.defaults):
            out[p.arg] = d
        for p, d in zip(a.kwonlyargs, a.kw_defaults):
            if d is not None:
                out[p.arg] = d
        return out

    def param_annotations(self) -> dict[str, ast.expr | None]:
        a = self.node.args
        return {x.arg: x.annotation for x in a.posonlyargs + a.args + a.kwonlyargs}


@dataclass
class ClassInfo:
    name: str
    qualname: str
    node: ast.ClassDef
    module: "ModuleInfo"
    outer: "ClassInfo | None" = None
    methods: dict[str, FuncInfo] = field(default_factory=dict)
    setters: dict[str, FuncInfo] = field(default_factory=dict)
    class_attrs: dict[str, ast.expr] = field(default_factory=dict)
    class_annots: dict[str, ast.expr] = field(default_factory=dict)
    nested: dict[str, "ClassInfo"] = field(default_factory=dict)
    _bases: list["ClassInfo"] | None = None
    _mro: list["ClassInfo"] | None = None

    @property
    def loc(self) -> str:
        return f"{self.module.relpath}:{self.node.lineno}"

    @property
    def keywords(self) -> dict[str, ast.expr]:
        return {k.arg: k.value for k in self.node.keywords if k.arg is not None}

    def __hash__(self) -> int:
        return hash(self.qualname)

    def __eq__(self, other: object) -> bool:
        return isinstance(other, ClassInfo) and other.qualname == self.qualname

    def __repr__(self) -> str:
        return f"<class {self.qualname}>"


@dataclass
class ModuleInfo:
    name: str
    path: Path
    relpath: str
    source: str
    tree: ast.Module
    imports: dict[str, str] = field(default_factory=dict)  # alias -> dotted target
    classes: dict[str, ClassInfo] = field(default_factory=dict)
    functions: dict[str, FuncInfo] = field(default_factory=dict)
    assigns: dict[str, ast.expr] = field(default_factory=dict)

    def __repr__(self) -> str:
        return f"<module {self.name}>"


def _decorator_names(node: ast.FunctionDef | ast.AsyncFunctionDef) -> list[str]:
    out = []
    for d in node.decorator_list:
        if isinstance(d, ast.Name):
            out.append(d.id)
        elif isinstance(d, ast.Attribute):
            out.append(d.attr if d.attr in ("setter", "getter", "deleter") else d.attr)
        elif isinstance(d, ast.Call):
            f = d.func
            out.append(f.id if isinstance(f, ast.Name) else getattr(f, "attr", "?"))
    return out


def canon_compare(node: ast.Compare) -> None:
    """`a == b` / `a != b` with operands free of calls / awaits / walrus: put the operands into a fixed order (literals last, otherwise by
    text), so that the commuted spelling of the same test looks the same to every rule."""
    if len(node.ops) != 1 or not isinstance(node.ops[0], (ast.Eq, ast.NotEq)):
        return
    a, b = node.left, node.comparators[0]
    for e in (a, b):
        if any(isinstance(x, (ast.Call, ast.Await, ast.NamedExpr, ast.Yield, ast.YieldFrom)) for x in ast.walk(e)):
            return
    ka = (isinstance(a, ast.Constant), ast.unparse(a))
    kb = (isinstance(b, ast.Constant), ast.unparse(b))
    if kb < ka:
        node.left, node.comparators = b, [a]


def canon_text(text: str) -> str:
    """Canonical spelling of an expression written in a rule (same operand order as the canonical source view)."""
    tree = ast.parse(text, mode="eval")
    for x in ast.walk(tree):
        if isinstance(x, ast.Compare):
            canon_compare(x)
    return ast.unparse(tree)


class _Canon(ast.NodeTransformer):
    """Canonical view of the source used by every rule: statements that cannot influence behaviour are dropped
    (docstrings, bare `pass` next to other statements, calls on the module logger whose arguments contain no await / walrus)
    and `not (x is None)` / `not (a == b)` are rewritten to `x is not None` / `a != b`."""

    @staticmethod
    def _is_log(st: ast.stmt) -> bool:
        if not (isinstance(st, ast.Expr) and isinstance(st.value, ast.Call)):
            return False
        f = st.value.func
        if not (isinstance(f, ast.Attribute) and isinstance(f.value, ast.Name) and f.value.id == "logger"):
            return False
        return not any(isinstance(x, (ast.Await, ast.NamedExpr, ast.Yield)) for x in ast.walk(st.value))

    def _clean(self, body: list[ast.stmt]) -> list[ast.stmt]:
        out = []
        for i, st in enumerate(body):
            if isinstance(st, ast.Expr) and isinstance(st.value, ast.Constant) and isinstance(st.value.value, str):
                continue
            if self._is_log(st) or isinstance(st, ast.Pass):
                continue
            out.append(st)
        if not out:
            p = ast.Pass()
            if body:
                ast.copy_location(p, body[0])
            out = [p]
        return out

    def generic_visit(self, node: ast.AST) -> ast.AST:
        super().generic_visit(node)
        for fld in ("body", "orelse", "finalbody"):
            val = getattr(node, fld, None)
            if isinstance(val, list) and val and isinstance(val[0], ast.stmt):
                if fld != "body" and not val:
                    continue
                cleaned = self._clean(val)
                if fld in ("orelse", "finalbody") and len(cleaned) == 1 and isinstance(cleaned[0], ast.Pass) and not any(
                        not (self._is_log(x) or isinstance(x, ast.Pass)) for x in val):
                    # an else/finally block that only logged: keep a pass so the structure stays visible
                    pass
                setattr(node, fld, cleaned)
        return node

    _depth = 0

    def _visit_func(self, node):
        self._depth += 1
        try:
            self.generic_visit(node)
        finally:
            self._depth -= 1
        return node

    visit_FunctionDef = _visit_func
    visit_AsyncFunctionDef = _visit_func

    def visit_ClassDef(self, node: ast.ClassDef) -> ast.AST:
        # class bodies keep their annotated assignments (dataclass / pydantic fields); methods inside are functions again
        saved, self._depth = self._depth, 0
        try:
            self.generic_visit(node)
        finally:
            self._depth = saved
        return node

    def visit_AnnAssign(self, node: ast.AnnAssign) -> ast.AST | None:
        self.generic_visit(node)
        if self._depth > 0 and node.simple and isinstance(node.target, ast.Name):
            if node.value is None:
                return ast.copy_location(ast.Pass(), node)          # a bare local annotation has no run-time effect
            return ast.copy_location(ast.Assign(targets=[node.target], value=node.value), node)
        return node

    @staticmethod
    def _pure(e: ast.expr) -> bool:
        return not any(isinstance(x, (ast.Call, ast.Await, ast.NamedExpr, ast.Yield, ast.YieldFrom)) for x in ast.walk(e))

    def visit_Compare(self, node: ast.Compare) -> ast.AST:
        self.generic_visit(node)
        canon_compare(node)
        return node

    def visit_UnaryOp(self, node: ast.UnaryOp) -> ast.AST:
        self.generic_visit(node)
        if isinstance(node.op, ast.Not) and isinstance(node.operand, ast.Compare) and len(node.operand.ops) == 1:
            flip = {ast.Is: ast.IsNot, ast.IsNot: ast.Is, ast.Eq: ast.NotEq, ast.NotEq: ast.Eq, ast.In: ast.NotIn, ast.NotIn: ast.In}
            op = node.operand.ops[0]
            if type(op) in flip:
                new = ast.Compare(left=node.operand.left, ops=[flip[type(op)]()], comparators=node.operand.comparators)
                return ast.copy_location(new, node)
        return node


class Model:
    def __init__(self, root: Path | None = None, package: str = "gallia") -> None:
        self.root = root or repo_root()
        self.src = self.root / "src"
        self.package = package
        self.modules: dict[str, ModuleInfo] = {}
        self.classes: dict[str, ClassInfo] = {}
        self._subclasses: dict[str, list[ClassInfo]] | None = None
        self._load()

    # ------------------------------------------------------------------ load
    def _load(self) -> None:
        pkg = self.src / self.package
        if not pkg.is_dir():
            raise AnalysisError(f"source package not found: {pkg}")
        parsed: dict[str, tuple] = {}
        for path in sorted(pkg.rglob("*.py")):
            rel = path.relative_to(self.src)
            parts = list(rel.with_suffix("").parts)
            if parts[-1] == "__init__":
                parts = parts[:-1]
            name = ".".join(parts)
            source = path.read_text(encoding="utf-8")
            try:
                tree = ast.parse(source, filename=str(path))
            except SyntaxError as e:  # the variant does not compile: not our business
                raise AnalysisError(f"cannot parse {path}: {e}") from e
            raw = ast.parse(source, filename=str(path))
            parsed[name] = (path, source, tree, raw)
        if not os.environ.get("VERIF_NO_NORMALISE"):
            from .normalise import normalise
            normalise({k: v[2] for k, v in parsed.items()})
        for name, (path, source, tree, raw) in parsed.items():
            tree = ast.fix_missing_locations(_Canon().visit(tree))
            mod = ModuleInfo(name, path, str(path.relative_to(self.root)), source, tree)
            mod.raw_tree = raw  # type: ignore[attr-defined]
            self.modules[name] = mod
        for mod in self.modules.values():
            self._index_module(mod)

    def _index_body(self, mod: ModuleInfo, body: list[ast.stmt], outer: ClassInfo | None) -> None:
        for st in body:
            if isinstance(st, (ast.Import, ast.ImportFrom)) and outer is None:
                self._index_import(mod, st)
            elif isinstance(st, ast.ClassDef):
                self._index_class(mod, st, outer)
            elif isinstance(st, (ast.FunctionDef, ast.AsyncFunctionDef)) and outer is None:
                if st.name not in mod.functions:
                    mod.functions[st.name] = FuncInfo(
                        st.name, f"{mod.name}.{st.name}", st, mod, None, _decorator_names(st)
                    )
            elif isinstance(st, ast.Assign) and outer is None:
                for t in st.targets:
                    if isinstance(t, ast.Name):
                        mod.assigns[t.id] = st.value
            elif isinstance(st, ast.AnnAssign) and outer is None:
                if isinstance(st.target, ast.Name) and st.value is not None:
                    mod.assigns[st.target.id] = st.value
            elif isinstance(st, ast.If) and outer is None:
                # platform switches: index every arm, first definition wins (linux comes first)
                self._index_body(mod, st.body, None)
                self._index_body(mod, st.orelse, None)
            elif isinstance(st, ast.Try) and outer is None:
                self._index_body(mod, st.body, None)

    def _index_module(self, mod: ModuleInfo) -> None:
        self._index_body(mod, mod.tree.body, None)

    def _index_import(self, mod: ModuleInfo, st: ast.Import | ast.ImportFrom) -> None:
        if isinstance(st, ast.Import):
            for a in st.names:
                if a.asname:
                    mod.imports[a.asname] = a.name
                else:
                    mod.imports[a.name.split(".")[0]] = a.name.split(".")[0]
        else:
            base = st.module or ""
            if st.level:
                parts = mod.name.split(".")
                is_pkg = mod.path.name == "__init__.py"
                up = st.level - (1 if is_pkg else 0)
                parts = parts[: len(parts) - up] if up else parts
                if not is_pkg:
                    pass
                base = ".".join(parts + ([base] if base else []))
            for a in st.names:
                mod.imports[a.asname or a.name] = f"{base}.{a.name}"

    def _index_class(self, mod: ModuleInfo, node: ast.ClassDef, outer: ClassInfo | None) -> None:
        qual = f"{outer.qualname}.{node.name}" if outer else f"{mod.name}.{node.name}"
        ci = ClassInfo(node.name, qual, node, mod, outer)
        if outer is None:
            if node.name in mod.classes:
                return  # first definition wins (platform switch)
            mod.classes[node.name] = ci
        else:
            outer.nested[node.name] = ci
        self.classes[qual] = ci
        for st in node.body:
            if isinstance(st, (ast.FunctionDef, ast.AsyncFunctionDef)):
                decs = _decorator_names(st)
                fi = FuncInfo(st.name, f"{qual}.{st.name}", st, mod, ci, decs)
                if "setter" in decs:
                    ci.setters[st.name] = fi
                elif "getter" in decs or "deleter" in decs:
                    pass
                else:
                    ci.methods[st.name] = fi
            elif isinstance(st, ast.ClassDef):
                self._index_class(mod, st, ci)
            elif isinstance(st, ast.Assign):
                for t in st.targets:
                    if isinstance(t, ast.Name):
                        ci.class_attrs[t.id] = st.value
            elif isinstance(st, ast.AnnAssign) and isinstance(st.target, ast.Name):
                ci.class_annots[st.target.id] = st.annotation
                if st.value is not None:
                    ci.class_attrs[st.target.id] = st.value

    # --------------------------------------------------------------- lookup
    def module(self, name: str) -> ModuleInfo:
        if name not in self.modules:
            raise AnalysisError(f"anchor module vanished: {name}")
        return self.modules[name]

    def require_class(self, qualname: str) -> ClassInfo:
        if qualname not in self.classes:
            raise AnalysisError(f"anchor class vanished: {qualname}")
        return self.classes[qualname]

    def require_function(self, qualname: str) -> FuncInfo:
        modname, _, fname = qualname.rpartition(".")
        if modname in self.modules and fname in self.modules[modname].functions:
            return self.modules[modname].functions[fname]
        if modname in self.classes:
            f = self.classes[modname].methods.get(fname)
            if f is not None:
                return f
        raise AnalysisError(f"anchor function vanished: {qualname}")

    def resolve_dotted(self, dotted: str) -> Any:
        """dotted path -> ModuleInfo | ClassInfo | FuncInfo | ('const', module, expr) | None"""
        if dotted in self.modules:
            return self.modules[dotted]
        head, _, last = dotted.rpartition(".")
        if not head:
            return None
        owner = self.resolve_dotted(head)
        if isinstance(owner, ModuleInfo):
            return self.lookup_in_module(owner, last)
        if isinstance(owner, ClassInfo):
            return self.class_member(owner, last)
        return None

    def lookup_in_module(self, mod: ModuleInfo, name: str, _seen: set | None = None) -> Any:
        _seen = _seen or set()
        key = (mod.name, name)
        if key in _seen:
            return None
        _seen.add(key)
        if name in mod.classes:
            return mod.classes[name]
        if name in mod.functions:
            return mod.functions[name]
        if name in mod.assigns:
            v = mod.assigns[name]
            # alias of another name?
            if isinstance(v, (ast.Name, ast.Attribute)):
                r = self.resolve_expr(mod, v)
                if r is not None:
                    return r
            return ("const", mod, v)
        if name in mod.imports:
            target = mod.imports[name]
            if target in self.modules:
                return self.modules[target]
            head, _, last = target.rpartition(".")
            if head in self.modules:
                return self.lookup_in_module(self.modules[head], last, _seen)
            return ("external", target)
        return None

    def class_member(self, cls: ClassInfo, name: str) -> Any:
        for c in self.mro(cls):
            if name in c.nested:
                return c.nested[name]
            if name in c.methods:
                return c.methods[name]
            if name in c.class_attrs:
                v = c.class_attrs[name]
                if isinstance(v, (ast.Name, ast.Attribute)):
                    r = self.resolve_expr(c.module, v, c)
                    if r is not None:
                        return r
                return ("const", c.module, v)
        return None

    def resolve_expr(self, mod: ModuleInfo, expr: ast.expr, cls: ClassInfo | None = None) -> Any:
        """Resolve Name / Attribute chains / string forward references to a program entity."""
        if isinstance(expr, ast.Constant) and isinstance(expr.value, str):
            try:
                return self.resolve_expr(mod, ast.parse(expr.value, mode="eval").body, cls)
            except SyntaxError:
                return None
        if isinstance(expr, ast.Name):
            c = cls
            while c is not None:
                if expr.id in c.nested:
                    return c.nested[expr.id]
                c = c.outer
            return self.lookup_in_module(mod, expr.id)
        if isinstance(expr, ast.Attribute):
            owner = self.resolve_expr(mod, expr.value, cls)
            if isinstance(owner, ModuleInfo):
                return self.lookup_in_module(owner, expr.attr)
            if isinstance(owner, ClassInfo):
                return self.class_member(owner, expr.attr)
            if isinstance(owner, tuple) and owner[0] == "external":
                return ("external", owner[1] + "." + expr.attr)
            return None
        if isinstance(expr, ast.Subscript):
            # type[X] / Optional[X] etc. are handled by annotation_classes
            return None
        return None

    # ------------------------------------------------------------ hierarchy
    def bases(self, cls: ClassInfo) -> list[ClassInfo]:
        if cls._bases is None:
            out = []
            for b in cls.node.bases:
                r = self.resolve_expr(cls.module, b, cls.outer)
                if isinstance(r, ClassInfo):
                    out.append(r)
            cls._bases = out
        return cls._bases

    def external_bases(self, cls: ClassInfo) -> list[str]:
        out = []
        for b in cls.node.bases:
            r = self.resolve_expr(cls.module, b, cls.outer)
            if not isinstance(r, ClassInfo):
                out.append(ast.unparse(b))
        return out

    def mro(self, cls: ClassInfo) -> list[ClassInfo]:
        if cls._mro is not None:
            return cls._mro
        seqs = [self.mro(b)[:] for b in self.bases(cls)] + [self.bases(cls)[:]]
        res = [cls]
        while True:
            seqs = [s for s in seqs if s]
            if not seqs:
                break
            for s in seqs:
                cand = s[0]
                if not any(cand in t[1:] for t in seqs):
                    break
            else:
                raise AnalysisError(f"inconsistent MRO for {cls.qualname}")
            res.append(cand)
            for s in seqs:
                if s and s[0] == cand:
                    del s[0]
        cls._mro = res
        return res

    def is_subclass(self, cls: ClassInfo, base: ClassInfo) -> bool:
        return base in self.mro(cls)

    def subclasses(self, base: ClassInfo, strict: bool = False) -> list[ClassInfo]:
        out = [c for c in self.classes.values() if self.is_subclass(c, base)]
        if strict:
            out = [c for c in out if c != base]
        return sorted(out, key=lambda c: (c.module.name, c.node.lineno))

    def resolve_method(self, cls: ClassInfo, name: str, after: ClassInfo | None = None) -> FuncInfo | None:
        mro = self.mro(cls)
        if after is not None:
            mro = mro[mro.index(after) + 1:]
        for c in mro:
            if name in c.methods:
                return c.methods[name]
        return None

    def inherits_external(self, cls: ClassInfo, name: str) -> bool:
        for c in self.mro(cls):
            for b in c.node.bases:
                if ast.unparse(b).split(".")[-1] == name:
                    return True
        return False

    def is_abstract_class(self, cls: ClassInfo) -> bool:
        """Declared abstract (lists ABC directly) or still has an unimplemented abstractmethod."""
        if any(ast.unparse(b).split(".")[-1] == "ABC" for b in cls.node.bases):
            return True
        return bool(self.abstract_methods(cls))

    def abstract_methods(self, cls: ClassInfo) -> list[str]:
        names: set[str] = set()
        for c in self.mro(cls):
            names.update(c.methods)
        out = []
        for n in sorted(names):
            m = self.resolve_method(cls, n)
            if m is not None and m.is_abstract:
                out.append(n)
        return out

    # ------------------------------------------------------------ constants
    def enum_members(self, cls: ClassInfo) -> dict[str, Any] | None:
        if not any(self.inherits_external(cls, n) for n in ("IntEnum", "Enum", "StrEnum", "IntFlag", "Flag")):
            return None
        out: dict[str, Any] = {}
        for c in reversed(self.mro(cls)):
            for k, v in c.class_attrs.items():
                if k.startswith("_"):
                    continue
                try:
                    out[k] = self.fold(c.module, v, cls=c)
                except NotConst:
                    pass
        return out

    def fold(self, mod: ModuleInfo, expr: ast.expr, env: dict[str, Any] | None = None,
             cls: ClassInfo | None = None) -> Any:
        env = env or {}
        if isinstance(expr, ast.Constant):
            return expr.value
        if isinstance(expr, ast.Name):
            if expr.id in env:
                return env[expr.id]
            if cls is not None and expr.id in cls.class_attrs:
                return self.fold(mod, cls.class_attrs[expr.id], env, cls)
            r = self.lookup_in_module(mod, expr.id)
            if isinstance(r, tuple) and r[0] == "const":
                return self.fold(r[1], r[2], None)
            raise NotConst(ast.unparse(expr))
        if isinstance(expr, ast.Attribute):
            if expr.attr == "value":
                try:
                    return self.fold(mod, expr.value, env, cls)
                except NotConst:
                    pass
            owner = self.resolve_expr(mod, expr.value, cls)
            if isinstance(owner, ClassInfo):
                members = self.enum_members(owner)
                if members is not None and expr.attr in members:
                    return members[expr.attr]
                m = self.class_member(owner, expr.attr)
                if isinstance(m, tuple) and m[0] == "const":
                    return self.fold(m[1], m[2], None)
            if isinstance(owner, ModuleInfo):
                r = self.lookup_in_module(owner, expr.attr)
                if isinstance(r, tuple) and r[0] == "const":
                    return self.fold(r[1], r[2], None)
            raise NotConst(ast.unparse(expr))
        if isinstance(expr, ast.UnaryOp):
            v = self.fold(mod, expr.operand, env, cls)
            if isinstance(expr.op, ast.USub):
                return -v
            if isinstance(expr.op, ast.UAdd):
                return +v
            if isinstance(expr.op, ast.Invert):
                return ~v
            if isinstance(expr.op, ast.Not):
                return not v
        if isinstance(expr, ast.BinOp):
            a = self.fold(mod, expr.left, env, cls)
            b = self.fold(mod, expr.right, env, cls)
            try:
                return _BINOPS[type(expr.op)](a, b)
            except (KeyError, TypeError, ZeroDivisionError, ValueError) as e:
                raise NotConst(str(e)) from e
        if isinstance(expr, (ast.Tuple, ast.List)):
            vals = [self.fold(mod, e, env, cls) for e in expr.elts]
            return tuple(vals) if isinstance(expr, ast.Tuple) else vals
        if isinstance(expr, ast.JoinedStr):
            parts = []
            for v in expr.values:
                if isinstance(v, ast.Constant):
                    parts.append(str(v.value))
                elif isinstance(v, ast.FormattedValue) and v.format_spec is None and v.conversion == -1:
                    parts.append(str(self.fold(mod, v.value, env, cls)))
                else:
                    raise NotConst("f-string")
            return "".join(parts)
        if isinstance(expr, ast.Call):
            fn = ast.unparse(expr.func)
            if fn == "len" and len(expr.args) == 1:
                return len(self.fold(mod, expr.args[0], env, cls))
            if fn in ("bytes",) and len(expr.args) == 1:
                return bytes(self.fold(mod, expr.args[0], env, cls))
            if fn in ("struct.calcsize", "calcsize") and len(expr.args) == 1:
                return struct.calcsize(self.fold(mod, expr.args[0], env, cls))
            if fn == "int" and len(expr.args) == 1:
                return int(self.fold(mod, expr.args[0], env, cls))
            r = self.resolve_expr(mod, expr.func, cls)
            if isinstance(r, ClassInfo) and self.enum_members(r) is not None and len(expr.args) == 1:
                return self.fold(mod, expr.args[0], env, cls)
            raise NotConst(fn)
        if isinstance(expr, ast.IfExp):
            t = self.fold(mod, expr.test, env, cls)
            return self.fold(mod, expr.body if t else expr.orelse, env, cls)
        if isinstance(expr, ast.Compare) and len(expr.ops) == 1:
            a = self.fold(mod, expr.left, env, cls)
            b = self.fold(mod, expr.comparators[0], env, cls)
            op = expr.ops[0]
            table = {ast.Eq: a == b, ast.NotEq: a != b, ast.Is: a is b, ast.IsNot: a is not b}
            if type(op) in table:
                return table[type(op)]
        raise NotConst(ast.unparse(expr))

    def try_fold(self, mod: ModuleInfo, expr: ast.expr, env: dict[str, Any] | None = None,
                 cls: ClassInfo | None = None, default: Any = None) -> Any:
        try:
            return self.fold(mod, expr, env, cls)
        except NotConst:
            return default

    def class_kw(self, cls: ClassInfo, name: str, default: Any = NotConst) -> Any:
        """Folded value of a class keyword argument (service_id=..., scheme=...)."""
        kws = cls.keywords
        if name not in kws:
            if default is NotConst:
                raise AnalysisError(f"{cls.qualname}: class keyword {name} missing")
            return default
        try:
            return self.fold(cls.module, kws[name], cls=cls.outer)
        except NotConst:
            r = self.resolve_expr(cls.module, kws[name], cls.outer)
            if r is not None:
                return r
            raise AnalysisError(f"{cls.qualname}: cannot fold class keyword {name}={ast.unparse(kws[name])}")

    # ---------------------------------------------------------------- types
    def annotation_classes(self, mod: ModuleInfo, ann: ast.expr | None, cls: ClassInfo | None = None) -> list[ClassInfo]:
        """Classes of the repo an annotation can denote (unions flattened, None dropped)."""
        if ann is None:
            return []
        if isinstance(ann, ast.Constant) and isinstance(ann.value, str):
            try:
                return self.annotation_classes(mod, ast.parse(ann.value, mode="eval").body, cls)
            except SyntaxError:
                return []
        if isinstance(ann, ast.BinOp) and isinstance(ann.op, ast.BitOr):
            return self.annotation_classes(mod, ann.left, cls) + self.annotation_classes(mod, ann.right, cls)
        if isinstance(ann, ast.Subscript):
            head = ast.unparse(ann.value).split(".")[-1]
            if head in ("Optional", "Union", "Annotated", "Idempotent"):
                sl = ann.slice
                elts = sl.elts if isinstance(sl, ast.Tuple) else [sl]
                if head == "Annotated":
                    elts = elts[:1]
                out = []
                for e in elts:
                    out += self.annotation_classes(mod, e, cls)
                return out
            return []
        r = self.resolve_expr(mod, ann, cls)
        return [r] if isinstance(r, ClassInfo) else []

    def attr_types(self, cls: ClassInfo) -> dict[str, list[ClassInfo]]:
        """self.<attr> -> candidate classes, from annotations and constructor calls in any method of the MRO."""
        out: dict[str, list[ClassInfo]] = {}
        for c in reversed(self.mro(cls)):
            for name, ann in c.class_annots.items():
                t = self.annotation_classes(c.module, ann, c)
                if t:
                    out[name] = t
            for m in c.methods.values():
                pann = m.param_annotations()
                for n in ast.walk(m.node):
                    tgt = None
                    val = None
                    ann = None
                    if isinstance(n, ast.AnnAssign):
                        tgt, val, ann = n.target, n.value, n.annotation
                    elif isinstance(n, ast.Assign) and len(n.targets) == 1:
                        tgt, val = n.targets[0], n.value
                    if not (isinstance(tgt, ast.Attribute) and isinstance(tgt.value, ast.Name) and tgt.value.id == "self"):
                        continue
                    types: list[ClassInfo] = []
                    if ann is not None:
                        types = self.annotation_classes(c.module, ann, c)
                    if not types and isinstance(val, ast.Name) and val.id in pann:
                        types = self.annotation_classes(c.module, pann[val.id], c)
                    if not types and isinstance(val, ast.Call):
                        r = self.resolve_expr(c.module, val.func, c)
                        if isinstance(r, ClassInfo):
                            types = [r]
                    if types:
                        out[tgt.attr] = types
        return out

    def raw_function(self, f: FuncInfo) -> ast.FunctionDef | ast.AsyncFunctionDef:
        """The same function in the un-canonicalised tree (logging statements and docstrings kept)."""
        raw = getattr(f.module, "raw_tree")
        for n in ast.walk(raw):
            if isinstance(n, (ast.FunctionDef, ast.AsyncFunctionDef)) and n.name == f.name and n.lineno == f.node.lineno:
                return n
        raise AnalysisError(f"raw tree of {f.qualname} not found")

    # ------------------------------------------------------------ rename-insensitive matching
    _BUILTINS = set(dir(__import__("builtins")))

    def local_names(self, f: FuncInfo) -> set[str]:
        node = f.node
        a = node.args
        params = {x.arg for x in a.posonlyargs + a.args + a.kwonlyargs}
        if a.vararg:
            params.add(a.vararg.arg)
        if a.kwarg:
            params.add(a.kwarg.arg)
        stored: set[str] = set()
        for n in ast.walk(node):
            if isinstance(n, ast.Name) and isinstance(n.ctx, ast.Store):
                stored.add(n.id)
            if isinstance(n, ast.ExceptHandler) and n.name:
                stored.add(n.name)
            if isinstance(n, ast.MatchAs) and n.name:
                stored.add(n.name)
        return stored - params

    def mtext(self, f: FuncInfo, node: ast.AST | None = None, roles: dict[str, str] | None = None) -> str:
        """Text of node (default: whole function) with every local variable replaced by `_L` (parameters are kept).
        `roles` maps local names whose role was discovered structurally (loop variable, handler name ...) to a role label that
        is kept distinct instead of being masked."""
        locs = self.local_names(f)
        roles = dict(roles or {})
        for k_, v_ in self._param_roles(f, actual=True).items():
            roles.setdefault(k_, v_)
        import copy as _copy
        n2 = _copy.deepcopy(node if node is not None else f.node)
        for x in ast.walk(n2):
            if isinstance(x, ast.arg) and x.arg in roles and roles[x.arg].startswith("_P"):
                x.arg = roles[x.arg]
            if isinstance(x, ast.Name) and x.id in roles:
                x.id = roles[x.id]
            elif isinstance(x, ast.Name) and x.id in locs:
                x.id = "_L"
            if isinstance(x, ast.ExceptHandler) and x.name in roles:
                x.name = roles[x.name]
            elif isinstance(x, ast.ExceptHandler) and x.name in locs:
                x.name = "_L"
            if isinstance(x, ast.MatchAs) and x.name in roles:
                x.name = roles[x.name]
            elif isinstance(x, ast.MatchAs) and x.name in locs:
                x.name = "_L"
        for x in ast.walk(n2):
            if isinstance(x, ast.Compare):
                canon_compare(x)
        return ast.unparse(n2)

    _baseline_params: dict[str, list[str]] | None = None

    def _param_roles(self, f: FuncInfo, actual: bool) -> dict[str, str]:
        """Private functions: parameters are addressed by position (`_P<i>`), so that renaming one is invisible to the rules. `actual` maps the
        names in the analysed tree, otherwise the names the rule patterns are written with (sa/baseline_params.json, recorded from the pinned tree)."""
        if not f.name.startswith("_") or f.name.startswith("__"):
            return {}
        if Model._baseline_params is None:
            import json as _json
            try:
                Model._baseline_params = _json.loads((Path(__file__).parent / "baseline_params.json").read_text())
            except OSError:
                Model._baseline_params = {}
        base = Model._baseline_params.get(f.qualname)
        a = f.node.args
        now = [x.arg for x in a.posonlyargs + a.args + a.kwonlyargs]
        if base is None or len(base) != len(now):
            return {}
        names = now if actual else base
        return {n_: f"_P{i}" for i, n_ in enumerate(names) if n_ not in ("self", "cls")}

    def mpat(self, f: FuncInfo, text: str) -> str:
        """Mask an expected snippet (written with today's names) the same way: every name that is neither a parameter of f,
        nor a module-level name / import / builtin is a local."""
        tree = ast.parse(text)
        mod = f.module
        a = f.node.args
        keep = {x.arg for x in a.posonlyargs + a.args + a.kwonlyargs} | {"self", "cls"} | self._BUILTINS
        if a.vararg:
            keep.add(a.vararg.arg)
        if a.kwarg:
            keep.add(a.kwarg.arg)
        keep |= set(mod.imports) | set(mod.classes) | set(mod.functions) | set(mod.assigns)
        proles = self._param_roles(f, actual=False)
        for x in ast.walk(tree):
            if isinstance(x, ast.Name) and x.id in proles:
                x.id = proles[x.id]
            elif isinstance(x, ast.Name) and x.id not in keep:
                x.id = "_L"
            if isinstance(x, ast.ExceptHandler) and x.name:
                x.name = "_L"
        for x in ast.walk(tree):
            if isinstance(x, ast.Compare):
                canon_compare(x)
        return ast.unparse(tree)

    def has(self, f: FuncInfo, text: str, node: ast.AST | None = None) -> bool:
        return self.mpat(f, text) in self.mtext(f, node)

    def eqm(self, f: FuncInfo, node: ast.AST, text: str) -> bool:
        return self.mtext(f, node) == self.mpat(f, text)

    # ------------------------------------------------------------ iteration
    def functions(self) -> Iterator[FuncInfo]:
        for m in self.modules.values():
            yield from m.functions.values()
        for c in self.classes.values():
            yield from c.methods.values()
            yield from c.setters.values()


_BINOPS = {
    ast.Add: lambda a, b: a + b,
    ast.Sub: lambda a, b: a - b,
    ast.Mult: lambda a, b: a * b,
    ast.FloorDiv: lambda a, b: a // b,
    ast.Div: lambda a, b: a / b,
    ast.Mod: lambda a, b: a % b,
    ast.Pow: lambda a, b: a ** b,
    ast.LShift: lambda a, b: a << b,
    ast.RShift: lambda a, b: a >> b,
    ast.BitOr: lambda a, b: a | b,
    ast.BitAnd: lambda a, b: a & b,
    ast.BitXor: lambda a, b: a ^ b,
}


def walk_no_nested(node: ast.AST) -> Iterator[ast.AST]:
    """ast.walk that does not descend into nested function/class definitions or lambdas."""
    todo = list(ast.iter_child_nodes(node))
    while todo:
        n = todo.pop()
        yield n
        if isinstance(n, (ast.FunctionDef, ast.AsyncFunctionDef, ast.ClassDef, ast.Lambda)):
            continue
        todo.extend(ast.iter_child_nodes(n))


def norm(node: ast.AST) -> str:
    """Normalised text of a node (formatting-insensitive)."""
    return ast.unparse(node)
