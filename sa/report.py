"""E7: obligations, findings, known-findings matching, evidence and exit codes."""

from __future__ import annotations

import json
import os
import time
from pathlib import Path
from typing import Any

VERIF = Path(__file__).resolve().parent.parent
KNOWN_FILE = VERIF / "known_findings.json"


class Report:
    def __init__(self, prop: str, tier: str, title: str = "") -> None:
        self.prop = prop
        self.tier = tier
        self.title = title
        self.t0 = time.time()
        self.obligations: list[dict[str, Any]] = []
        self.violations: list[dict[str, Any]] = []
        self.advisories: list[dict[str, Any]] = []
        self.unknown: list[dict[str, Any]] = []
        self.analysed: dict[str, list[str]] = {}
        self.rules: dict[str, dict[str, Any]] = {}
        self.assumptions: list[str] = []
        self.not_decided: list[str] = []
        self.extra: dict[str, Any] = {}
        self.seed = int(os.environ.get("VERIF_SEED", "0") or 0)

    # ------------------------------------------------------------------ API
    def rule(self, rid: str, text: str, floor: int = 1) -> None:
        """Declare a rule: what is checked and how many instances it must at least find."""
        self.rules[rid] = {"text": text, "floor": floor, "instances": 0, "violations": 0}

    def note(self, kind: str, name: str) -> None:
        self.analysed.setdefault(kind, [])
        if name not in self.analysed[kind]:
            self.analysed[kind].append(name)

    def ok(self, rid: str, construct: str, fact: str = "") -> None:
        self._ob(rid, construct, True, fact)

    def check(self, cond: bool, rid: str, construct: str, msg: str, loc: str = "", facts: Any = None,
              fact_ok: str = "") -> bool:
        if cond:
            self._ob(rid, construct, True, fact_ok or msg)
        else:
            self.violation(rid, construct, msg, loc, facts)
        return cond

    def violation(self, rid: str, construct: str, msg: str, loc: str = "", facts: Any = None) -> None:
        self._ob(rid, construct, False, msg)
        self.violations.append({"rule": rid, "construct": construct, "message": msg, "loc": loc, "facts": facts})

    def unrecognised(self, rid: str, construct: str, msg: str, loc: str = "") -> None:
        """The code has a shape the rule cannot decide (neither the confirmed idiom nor a construct it can name as violating): the run ends as
        analysis-broken (exit 2) unless a violation was established elsewhere. Never a verdict."""
        self.unknown.append({"rule": rid, "construct": construct, "message": msg, "loc": loc})

    def check3(self, state: bool | None, rid: str, construct: str, msg: str, loc: str = "", unknown_msg: str = "", fact_ok: str = "") -> bool | None:
        """Three-valued obligation: True holds, False is a violation, None means the shape was not recognised."""
        if state is None:
            self.unrecognised(rid, construct, unknown_msg or f"shape not recognised ({msg})", loc)
            return None
        return self.check(bool(state), rid, construct, msg, loc, fact_ok=fact_ok)

    def advisory(self, rid: str, construct: str, msg: str, loc: str = "") -> None:
        self.advisories.append({"rule": rid, "construct": construct, "message": msg, "loc": loc})

    def _ob(self, rid: str, construct: str, ok: bool, fact: str) -> None:
        if rid not in self.rules:
            raise RuntimeError(f"undeclared rule {rid}")
        self.rules[rid]["instances"] += 1
        if not ok:
            self.rules[rid]["violations"] += 1
        self.obligations.append({"rule": rid, "construct": construct, "ok": ok, "fact": fact})

    # --------------------------------------------------------------- finish
    def finish(self) -> int:
        from .model import AnalysisError

        short = [f"rule {self.prop}.{rid} matched {r['instances']} instance(s), fewer than the {r['floor']} confirmed by hand"
                 for rid, r in self.rules.items() if r["instances"] < r["floor"]]
        known = load_known()
        kmap = {(k["property"], k["rule"], k["construct"]): k for k in known.get("known", [])}
        new: list[dict[str, Any]] = []
        matched: list[dict[str, Any]] = []
        seen: set[tuple[str, str]] = set()
        for v in self.violations:
            key = (v["rule"], v["construct"])
            if key in seen:
                continue
            seen.add(key)
            if (self.prop, v["rule"], v["construct"]) in kmap:
                matched.append(v)
            else:
                new.append(v)
        for v in matched:
            print(f"KNOWN-FINDING: property={self.prop} {v['rule']} {v['construct']}: {v['message']} [{v['loc']}]")
        for a in self.advisories:
            print(f"ADVISORY: property={self.prop} {a['rule']} {a['construct']}: {a['message']} [{a['loc']}]")
        replay_dir = VERIF / "evidence" / "replay"
        rc = 0
        quiet = bool(os.environ.get("VERIF_NO_EVIDENCE"))
        if new:
            if not quiet:
                replay_dir.mkdir(parents=True, exist_ok=True)
            for i, v in enumerate(new):
                path = replay_dir / f"{self.prop}-{i}.json"
                if not quiet:
                    path.write_text(json.dumps({"property": self.prop, **v}, indent=1, default=str) + "\n")
                print(f"  {v['loc']}: {self.prop}.{v['rule']} {v['construct']}: {v['message']}")
                print(f"VIOLATION property={self.prop} replay={path}")
            rc = 1
        if self.unknown and not new:
            raise AnalysisError("; ".join(f"{self.prop}.{u['rule']} {u['construct']}: {u['message']} [{u['loc']}]" for u in self.unknown[:4]))
        for u in self.unknown:
            print(f"NOTE: {self.prop}.{u['rule']} {u['construct']}: not decided, {u['message']}")
        if short and not new:
            # nothing was violated but a rule found fewer instances than confirmed by hand: it would pass vacuously
            raise AnalysisError("; ".join(short) + ": the rule would pass vacuously")
        for sh in short:
            print(f"NOTE: {sh} (reported together with the violations above)")
        if not quiet:
            self._write_evidence(len(new), len(matched))
        n_ob = len(self.obligations)
        n_ok = sum(1 for o in self.obligations if o["ok"])
        print(
            f"{self.prop} [{self.tier}] obligations={n_ob} discharged={n_ok} "
            f"violations={len(new)} known={len(matched)} advisories={len(self.advisories)} "
            f"wall={time.time() - self.t0:.2f}s"
        )
        return rc

    def _write_evidence(self, n_new: int, n_known: int) -> None:
        n_ob = len(self.obligations)
        n_ok = sum(1 for o in self.obligations if o["ok"])
        distinct = len({(o["rule"], o["construct"]) for o in self.obligations})
        samples = []
        per_rule_seen: dict[str, int] = {}
        for o in self.obligations:
            k = per_rule_seen.get(o["rule"], 0)
            if k < 3:
                samples.append(o)
                per_rule_seen[o["rule"]] = k + 1
        ev = {
            "property_id": self.prop,
            "tier": self.tier,
            "seed": self.seed,
            "level": "other",
            "coverage": {
                "explanation": (
                    f"static analysis of /repo's current source (ast of the working tree, nothing executed): "
                    f"{n_ob} obligations over {distinct} distinct (rule, construct) instances of "
                    f"{len(self.rules)} rules; each rule is a necessary condition of the property, "
                    f"instantiated for every sibling construct found by the program model. "
                    f"{n_ok} discharged, {n_new} new violations, {n_known} known findings."
                ),
                "evaluations": max(n_ob, 1),
                "distinct_nontrivial": distinct,
                "rule": "one obligation per (rule, enumerated construct); distinct = distinct (rule, construct) keys",
                "obligations": n_ob,
                "discharged": n_ok,
                "samples": samples,
                "rules": self.rules,
                "analysed": {k: {"count": len(v), "names": v[:200]} for k, v in self.analysed.items()},
                "known_findings_matched": n_known,
                "advisories": self.advisories,
                "not_decided": self.not_decided,
                "exhaustive": True,
                **self.extra,
            },
            "assumptions": self.assumptions,
            "wall_s": round(time.time() - self.t0, 3),
            "violations": n_new,
        }
        d = VERIF / "evidence"
        d.mkdir(exist_ok=True)
        (d / f"{self.prop}.json").write_text(json.dumps(ev, indent=1, default=str) + "\n")


def load_known() -> dict[str, Any]:
    if not KNOWN_FILE.exists():
        return {"known": [], "fixed": []}
    return json.loads(KNOWN_FILE.read_text())
