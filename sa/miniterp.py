"""Finite-domain evaluation of small pure functions taken from the source (no gallia code is imported or run).

The statements and expressions of the analysed function are interpreted over a handful of representative values per input; calls
the interpreter does not know are answered by an `oracle` callback (e.g. "the random draw" -> one of the representative values).
Anything outside the supported language raises AnalysisError, so a rule built on it fails closed."""
from __future__ import annotations

import ast
from typing import Any, Callable

from .model import AnalysisError

Oracle = Callable[[ast.Call, dict[str, Any]], Any]


class Raised(Exception):
    """The interpreted code reached a `raise` statement."""
    def __init__(self, node: ast.Raise) -> None:
        self.node = node


class Obj(dict):
    """A model object for finite-domain evaluation: attribute access reads / writes its keys."""
    def __hash__(self) -> int:  # type: ignore[override]
        return id(self)


class _Jump(Exception):
    """`continue` / `break` reached while interpreting a loop body fragment."""
    def __init__(self, node: ast.stmt) -> None:
        self.node = node


class _Return(Exception):
    def __init__(self, node: ast.Return, env: dict[str, Any]) -> None:
        self.node, self.env = node, env


def eval_expr(e: ast.expr, env: dict[str, Any], oracle: Oracle | None = None) -> Any:
    if isinstance(e, ast.Constant) and (e.value is None or isinstance(e.value, (int, float, bool, str, bytes))):
        return e.value
    if isinstance(e, ast.Name):
        if e.id in env:
            return env[e.id]
        raise AnalysisError(f"unbound name {e.id} in finite-domain evaluation")
    if isinstance(e, ast.Attribute) and ast.unparse(e) in env:
        return env[ast.unparse(e)]
    if isinstance(e, ast.Attribute):
        # attribute of a model object (Obj): a finite record of named fields; of None: AttributeError
        try:
            base_ = eval_expr(e.value, env, oracle)
        except AnalysisError:
            base_ = AnalysisError
        if isinstance(base_, Obj):
            if e.attr in base_:
                return base_[e.attr]
            raise Raised(ast.Raise(exc=ast.Name(id="AttributeError", ctx=ast.Load()), cause=None))
        if base_ is None:
            raise Raised(ast.Raise(exc=ast.Name(id="AttributeError", ctx=ast.Load()), cause=None))
    if isinstance(e, ast.UnaryOp):
        v = eval_expr(e.operand, env, oracle)
        if isinstance(e.op, ast.USub):
            return -v
        if isinstance(e.op, ast.Not):
            return not v
    if isinstance(e, ast.BinOp):
        a, b = eval_expr(e.left, env, oracle), eval_expr(e.right, env, oracle)
        ops = {ast.Add: lambda x, y: x + y, ast.Sub: lambda x, y: x - y, ast.Mult: lambda x, y: x * y, ast.Div: lambda x, y: x / y,
               ast.FloorDiv: lambda x, y: x // y, ast.Mod: lambda x, y: x % y, ast.BitAnd: lambda x, y: x & y, ast.BitOr: lambda x, y: x | y,
               ast.BitXor: lambda x, y: x ^ y, ast.LShift: lambda x, y: x << y, ast.RShift: lambda x, y: x >> y}
        if type(e.op) in ops:
            return ops[type(e.op)](a, b)
    if isinstance(e, ast.BoolOp):
        if isinstance(e.op, ast.And):
            v = True
            for x in e.values:
                v = eval_expr(x, env, oracle)
                if not v:
                    return v
            return v
        v = False
        for x in e.values:
            v = eval_expr(x, env, oracle)
            if v:
                return v
        return v
    if isinstance(e, ast.Compare):
        left = eval_expr(e.left, env, oracle)
        for op, c in zip(e.ops, e.comparators):
            right = eval_expr(c, env, oracle)
            t = {ast.Lt: lambda: left < right, ast.LtE: lambda: left <= right, ast.Gt: lambda: left > right, ast.GtE: lambda: left >= right,
                 ast.Eq: lambda: left == right, ast.NotEq: lambda: left != right, ast.Is: lambda: left is right, ast.IsNot: lambda: left is not right,
                 ast.In: lambda: left in right, ast.NotIn: lambda: left not in right}.get(type(op))
            if t is None:
                raise AnalysisError(f"comparison outside the language: {ast.unparse(e)}")
            if not t():
                return False
            left = right
        return True
    if isinstance(e, ast.IfExp):
        return eval_expr(e.body if eval_expr(e.test, env, oracle) else e.orelse, env, oracle)
    if isinstance(e, ast.Dict) and all(k is not None for k in e.keys):
        return {eval_expr(k, env, oracle): eval_expr(v, env, oracle) for k, v in zip(e.keys, e.values)}
    if isinstance(e, (ast.Tuple, ast.List)):
        vals = [eval_expr(x, env, oracle) for x in e.elts]
        return tuple(vals) if isinstance(e, ast.Tuple) else vals
    if isinstance(e, ast.NamedExpr) and isinstance(e.target, ast.Name):
        env[e.target.id] = eval_expr(e.value, env, oracle)
        return env[e.target.id]
    if isinstance(e, ast.Await):
        return eval_expr(e.value, env, oracle)
    if isinstance(e, ast.Subscript):
        base = eval_expr(e.value, env, oracle)
        if isinstance(base, dict) and not isinstance(e.slice, ast.Slice):
            k = eval_expr(e.slice, env, oracle)
            if k not in base:
                raise Raised(ast.Raise(exc=ast.Name(id="KeyError", ctx=ast.Load()), cause=None))
            return base[k]
        if isinstance(base, (str, bytes, list, tuple)) and not isinstance(e.slice, ast.Slice):
            idx = eval_expr(e.slice, env, oracle)
            try:
                return base[idx]
            except IndexError:
                raise Raised(ast.Raise(exc=ast.Name(id="IndexError", ctx=ast.Load()), cause=None))
            except TypeError:
                raise TypeRaised("TypeError")
        if base is None or isinstance(base, (int, float, bool)):
            raise TypeRaised("TypeError")
        if isinstance(base, (str, bytes, list, tuple)):
            if isinstance(e.slice, ast.Slice):
                lo = eval_expr(e.slice.lower, env, oracle) if e.slice.lower is not None else None
                hi = eval_expr(e.slice.upper, env, oracle) if e.slice.upper is not None else None
                st = eval_expr(e.slice.step, env, oracle) if e.slice.step is not None else None
                return base[lo:hi:st]
            return base[eval_expr(e.slice, env, oracle)]
    if isinstance(e, ast.JoinedStr):
        out = ""
        for v in e.values:
            if isinstance(v, ast.Constant):
                out += str(v.value)
            elif isinstance(v, ast.FormattedValue) and v.format_spec is None and v.conversion in (-1, 115):
                out += str(eval_expr(v.value, env, oracle))
            elif isinstance(v, ast.FormattedValue) and v.format_spec is None and v.conversion == 114:
                out += repr(eval_expr(v.value, env, oracle))
            else:
                raise AnalysisError(f"f-string outside the language: {ast.unparse(e)}")
        return out
    if isinstance(e, ast.Call) and isinstance(e.func, ast.Attribute) and e.func.attr in ("startswith", "endswith") and len(e.args) == 1 and not e.keywords:
        recv = eval_expr(e.func.value, env, oracle)
        if isinstance(recv, (str, bytes)):
            return getattr(recv, e.func.attr)(eval_expr(e.args[0], env, oracle))
    if isinstance(e, ast.Call) and isinstance(e.func, ast.Attribute) and e.func.attr in ("index", "find", "count") and len(e.args) == 1 and not e.keywords:
        recv = eval_expr(e.func.value, env, oracle)
        if isinstance(recv, (str, bytes)):
            try:
                return getattr(recv, e.func.attr)(eval_expr(e.args[0], env, oracle))
            except ValueError:
                raise Raised(ast.Raise(exc=ast.Name(id="ValueError", ctx=ast.Load()), cause=None))
    if isinstance(e, ast.Call) and isinstance(e.func, ast.Attribute) and e.func.attr in ("encode", "decode") and len(e.args) == 1 and not e.keywords:
        try:
            recv = eval_expr(e.func.value, env, oracle)
        except AnalysisError:
            recv = AnalysisError
        if isinstance(recv, (str, bytes)):
            try:
                return getattr(recv, e.func.attr)(eval_expr(e.args[0], env, oracle))
            except (UnicodeError, LookupError, TypeError) as ex:
                raise Raised(ast.Raise(exc=ast.Name(id=type(ex).__name__, ctx=ast.Load()), cause=None))
    if isinstance(e, ast.Call) and isinstance(e.func, ast.Attribute) and e.func.attr in ("encode",) and not e.args and not e.keywords:
        recv = eval_expr(e.func.value, env, oracle)
        if isinstance(recv, str):
            return recv.encode()
    if isinstance(e, ast.Call) and isinstance(e.func, ast.Attribute) and e.func.attr in ("decode", "hex", "upper", "lower") and not e.args and not e.keywords:
        recv = eval_expr(e.func.value, env, oracle)
        if isinstance(recv, (str, bytes)):
            return getattr(recv, e.func.attr)()
    if isinstance(e, (ast.ListComp, ast.SetComp, ast.GeneratorExp, ast.DictComp)) and not any(g.is_async for g in e.generators):
        out: list[Any] = []

        def gen(i: int, e2: dict[str, Any]) -> None:
            if i == len(e.generators):
                out.append((eval_expr(e.key, e2, oracle), eval_expr(e.value, e2, oracle)) if isinstance(e, ast.DictComp) else eval_expr(e.elt, e2, oracle))
                return
            g = e.generators[i]
            src = eval_expr(g.iter, e2, oracle)
            if isinstance(src, dict):
                src = list(src)
            if not isinstance(src, (list, tuple, set, frozenset, str, bytes, range)) and not hasattr(src, "__iter__"):
                raise TypeRaised("TypeError")
            for item in src:
                e3 = dict(e2)
                if isinstance(g.target, ast.Name):
                    e3[g.target.id] = item
                elif isinstance(g.target, ast.Tuple) and all(isinstance(t, ast.Name) for t in g.target.elts) and isinstance(item, tuple) and len(item) == len(g.target.elts):
                    for t, v_ in zip(g.target.elts, item):
                        e3[t.id] = v_
                else:
                    raise AnalysisError(f"comprehension target outside the language: {ast.unparse(e)}")
                if all(eval_expr(c, e3, oracle) for c in g.ifs):
                    gen(i + 1, e3)
        gen(0, dict(env))
        if isinstance(e, ast.DictComp):
            return dict(out)
        return set(out) if isinstance(e, ast.SetComp) else out
    if isinstance(e, ast.Call) and isinstance(e.func, ast.Attribute) and e.func.attr == "join" and len(e.args) == 1 and not e.keywords:
        recv = eval_expr(e.func.value, env, oracle)
        if isinstance(recv, (str, bytes)):
            items = eval_expr(e.args[0], env, oracle)
            try:
                return recv.join(items)
            except TypeError:
                raise TypeRaised("TypeError")
    if isinstance(e, ast.Call) and isinstance(e.func, ast.Attribute) and e.func.attr in ("replace", "rpartition", "partition", "removeprefix", "removesuffix", "rsplit", "lstrip", "rstrip") \
            and 1 <= len(e.args) <= 2 and not e.keywords:
        try:
            recv = eval_expr(e.func.value, env, oracle)
        except AnalysisError:
            recv = AnalysisError
        if isinstance(recv, (str, bytes)):
            try:
                return getattr(recv, e.func.attr)(*[eval_expr(a, env, oracle) for a in e.args])
            except (TypeError, ValueError) as ex:
                raise Raised(ast.Raise(exc=ast.Name(id=type(ex).__name__, ctx=ast.Load()), cause=None))
    if isinstance(e, ast.Call) and isinstance(e.func, ast.Attribute) and e.func.attr in ("split", "strip") and len(e.args) <= 1 and not e.keywords:
        recv = eval_expr(e.func.value, env, oracle)
        if isinstance(recv, (str, bytes)):
            return getattr(recv, e.func.attr)(*[eval_expr(a, env, oracle) for a in e.args])
        if recv is None or isinstance(recv, (int, float, bool, list, tuple, dict, set)):
            # a value of a builtin type that has no such method: AttributeError at run time
            raise Raised(ast.Raise(exc=ast.Name(id="AttributeError", ctx=ast.Load()), cause=None))
    if isinstance(e, ast.Call) and isinstance(e.func, ast.Name) and e.func.id == "map" and len(e.args) == 2 and not e.keywords and isinstance(e.args[0], ast.Name) \
            and e.args[0].id in ("str", "int", "float", "bool", "repr", "len"):
        fn_ = {"str": str, "int": int, "float": float, "bool": bool, "repr": repr, "len": len}[e.args[0].id]
        return [fn_(x) for x in eval_expr(e.args[1], env, oracle)]
    if isinstance(e, ast.Call) and isinstance(e.func, ast.Name) and e.func.id in ("all", "any") and len(e.args) == 1 and not e.keywords:
        return {"all": all, "any": any}[e.func.id](eval_expr(e.args[0], env, oracle))
    if isinstance(e, ast.Call) and isinstance(e.func, ast.Attribute) and e.func.attr == "setdefault" and len(e.args) == 2 and not e.keywords:
        try:
            recv = eval_expr(e.func.value, env, oracle)
        except AnalysisError:
            recv = AnalysisError
        if isinstance(recv, dict) and not isinstance(recv, Obj):
            k_ = eval_expr(e.args[0], env, oracle)
            if k_ not in recv:
                recv[k_] = eval_expr(e.args[1], env, oracle)
            return recv[k_]
    if isinstance(e, ast.Call) and isinstance(e.func, ast.Attribute) and e.func.attr == "get" and 1 <= len(e.args) <= 2 and not e.keywords:
        try:
            recv = eval_expr(e.func.value, env, oracle)
        except AnalysisError:
            recv = AnalysisError
        if isinstance(recv, dict) and not isinstance(recv, Obj):
            k_ = eval_expr(e.args[0], env, oracle)
            return recv[k_] if k_ in recv else (eval_expr(e.args[1], env, oracle) if len(e.args) == 2 else None)
    if isinstance(e, ast.Call) and isinstance(e.func, ast.Attribute) and e.func.attr in ("items", "keys", "values") and not e.args and not e.keywords:
        recv = eval_expr(e.func.value, env, oracle)
        if isinstance(recv, dict):
            return list(getattr(recv, e.func.attr)())
    if isinstance(e, ast.Call) and isinstance(e.func, ast.Name) and e.func.id == "isinstance" and len(e.args) == 2 and not e.keywords:
        types = _builtin_types(e.args[1])
        if types is not None:
            return isinstance(eval_expr(e.args[0], env, oracle), types)
        if _builtin_types(e.args[0]) is not None:
            # isinstance(<type>, <value>): the second argument is no type -> TypeError at run time
            raise TypeRaised("TypeError")
    if isinstance(e, ast.Call):
        f = ast.unparse(e.func)
        if f == "len" and len(e.args) == 1 and not e.keywords:
            v0 = None
            try:
                v0 = eval_expr(e.args[0], env, oracle)
            except AnalysisError:
                v0 = AnalysisError
            if v0 is not AnalysisError and (v0 is None or isinstance(v0, (int, float, bool))):
                raise TypeRaised("TypeError")
        if f == "len" and len(e.args) == 1 and not e.keywords:
            try:
                v = eval_expr(e.args[0], env, oracle)
                if isinstance(v, (str, bytes, list, tuple, dict, set, frozenset)):
                    return len(v)
            except AnalysisError:
                pass
        if f in ("max", "min", "int", "abs", "float", "round", "bool", "range", "tuple", "list", "sorted", "str", "divmod", "bytes", "hex", "repr") and not e.keywords:
            args = [eval_expr(a, env, oracle) for a in e.args]
            try:
                return {"max": max, "min": min, "int": int, "abs": abs, "float": float, "round": round, "bool": bool, "range": range, "tuple": tuple, "list": list,
                        "sorted": sorted, "str": str, "divmod": divmod, "bytes": bytes, "hex": hex, "repr": repr}[f](*args)
            except (TypeError, ValueError) as ex:
                raise Raised(ast.Raise(exc=ast.Name(id=type(ex).__name__, ctx=ast.Load()), cause=None))
        if oracle is not None:
            v = oracle(e, env)
            if v is not NotImplemented:
                return v
    raise AnalysisError(f"expression outside the finite-domain language: {ast.unparse(e)}")


class TypeRaised(Raised):
    """The interpreted expression raises a TypeError for the representative value (e.g. len(5))."""
    def __init__(self, name: str = "TypeError") -> None:
        super().__init__(ast.Raise(exc=ast.Name(id=name, ctx=ast.Load()), cause=None))


_BUILTIN_TYPES = {"int": int, "str": str, "bytes": bytes, "bytearray": bytearray, "list": list, "tuple": tuple, "dict": dict, "set": set, "bool": bool, "float": float}


def _builtin_types(node: ast.expr):
    """bytes | bytearray, (bytes, bytearray), list ... -> tuple of types; None if another name occurs."""
    if isinstance(node, ast.Name):
        return (_BUILTIN_TYPES[node.id],) if node.id in _BUILTIN_TYPES else None
    if isinstance(node, ast.BinOp) and isinstance(node.op, ast.BitOr):
        a, b = _builtin_types(node.left), _builtin_types(node.right)
        return a + b if a is not None and b is not None else None
    if isinstance(node, ast.Tuple):
        parts = [_builtin_types(x) for x in node.elts]
        return tuple(t for p in parts for t in p) if all(p is not None for p in parts) else None
    return None


def _match_pattern(pat: ast.pattern, subj: Any, env: dict[str, Any], oracle: Oracle | None) -> bool | None:
    if isinstance(pat, ast.MatchAs) and pat.pattern is None:
        if pat.name is not None:
            env[pat.name] = subj
        return True
    if isinstance(pat, ast.MatchAs) and pat.pattern is not None:
        ok_ = _match_pattern(pat.pattern, subj, env, oracle)
        if ok_ and pat.name:
            env[pat.name] = subj
        return ok_
    if isinstance(pat, ast.MatchOr):
        res = [_match_pattern(p_, subj, env, oracle) for p_ in pat.patterns]
        return None if any(x is None for x in res) else any(res)
    if isinstance(pat, ast.MatchValue):
        return subj == eval_expr(pat.value, env, oracle)
    if isinstance(pat, ast.MatchSingleton):
        return subj is pat.value
    if isinstance(pat, ast.MatchClass) and not pat.patterns and not pat.kwd_patterns:
        types = _builtin_types(pat.cls)
        if types is not None:
            return isinstance(subj, types)
        if oracle is not None:
            v = oracle(ast.Call(func=ast.Name(id="isinstance", ctx=ast.Load()), args=[ast.Constant(value=subj), pat.cls], keywords=[]), env)
            if v is not NotImplemented:
                return bool(v)
    return None


def exec_body(stmts: list[ast.stmt], env: dict[str, Any], oracle: Oracle | None = None) -> None:
    for st in stmts:
        if isinstance(st, ast.Expr) and isinstance(st.value, ast.Constant):
            continue
        if isinstance(st, ast.Pass):
            continue
        if isinstance(st, (ast.Assign, ast.AnnAssign)):
            tg = st.targets[0] if isinstance(st, ast.Assign) else st.target
            if st.value is None:
                continue
            if isinstance(tg, (ast.Tuple, ast.List)) and all(isinstance(t, ast.Name) for t in tg.elts):
                vals = eval_expr(st.value, env, oracle)
                if not isinstance(vals, (tuple, list)) or len(vals) != len(tg.elts):
                    raise Raised(ast.Raise(exc=ast.Name(id="ValueError", ctx=ast.Load()), cause=None))
                for t, v_ in zip(tg.elts, vals):
                    env[t.id] = v_
                continue
            if isinstance(tg, ast.Subscript) and not isinstance(tg.slice, ast.Slice):
                base = eval_expr(tg.value, env, oracle)
                if isinstance(base, dict):
                    base[eval_expr(tg.slice, env, oracle)] = eval_expr(st.value, env, oracle)
                    continue
            if isinstance(tg, ast.Attribute):
                val_ = eval_expr(st.value, env, oracle)
                if ast.unparse(tg) in env:
                    env[ast.unparse(tg)] = val_
                    continue
                base_ = eval_expr(tg.value, env, oracle)
                if isinstance(base_, Obj):
                    base_[tg.attr] = val_
                    continue
            if not isinstance(tg, ast.Name):
                raise AnalysisError(f"assignment outside the language: {ast.unparse(st)}")
            env[tg.id] = eval_expr(st.value, env, oracle)
            continue
        if isinstance(st, ast.AugAssign) and isinstance(st.target, ast.Name):
            env[st.target.id] = eval_expr(ast.BinOp(left=ast.Name(id=st.target.id, ctx=ast.Load()), op=st.op, right=st.value), env, oracle)
            continue
        if isinstance(st, ast.If):
            exec_body(st.body if eval_expr(st.test, env, oracle) else st.orelse, env, oracle)
            continue
        if isinstance(st, ast.Return):
            raise _Return(st, env)
        if isinstance(st, ast.Raise):
            raise Raised(st)
        if isinstance(st, ast.Assert):
            if not eval_expr(st.test, env, oracle):
                raise Raised(ast.Raise(exc=ast.Name(id="AssertionError", ctx=ast.Load()), cause=None))
            continue
        if isinstance(st, ast.Expr):
            eval_expr(st.value, env, oracle)
            continue
        if isinstance(st, (ast.Continue, ast.Break)):
            raise _Jump(st)
        if isinstance(st, ast.Try):
            try:
                try:
                    exec_body(st.body, env, oracle)
                except Raised as ex_:
                    raised = ast.unparse(ex_.node.exc.func if isinstance(ex_.node.exc, ast.Call) else ex_.node.exc).split(".")[-1] if ex_.node.exc is not None else ""
                    for h in st.handlers:
                        names = [] if h.type is None else [ast.unparse(x).split(".")[-1] for x in (h.type.elts if isinstance(h.type, ast.Tuple) else [h.type])]
                        if h.type is None or raised in names or "Exception" in names or "BaseException" in names:
                            if h.name:
                                env[h.name] = ("EXC", raised)
                            exec_body(h.body, env, oracle)
                            break
                    else:
                        raise
                else:
                    exec_body(st.orelse, env, oracle)
            finally:
                exec_body(st.finalbody, env, oracle)
            continue
        if isinstance(st, ast.Match):
            subj = eval_expr(st.subject, env, oracle)
            taken = False
            for case in st.cases:
                ok_ = _match_pattern(case.pattern, subj, env, oracle)
                if ok_ is None:
                    raise AnalysisError(f"match pattern outside the finite-domain language: {ast.unparse(case.pattern)}")
                if ok_ and (case.guard is None or eval_expr(case.guard, env, oracle)):
                    exec_body(case.body, env, oracle)
                    taken = True
                    break
            del taken
            continue
        raise AnalysisError(f"statement outside the finite-domain language: {ast.unparse(st)[:80]}")


def run_function(fn_node: ast.FunctionDef | ast.AsyncFunctionDef, env: dict[str, Any], oracle: Oracle | None = None) -> tuple[ast.Return | None, dict[str, Any]]:
    """Interpret the body; returns the Return statement reached (None: fell off the end) and the environment at that point."""
    env = dict(env)
    try:
        exec_body(fn_node.body, env, oracle)
    except _Return as r_:
        return r_.node, r_.env
    return None, env


def with_helpers(functions: dict[str, Any], oracle: Oracle | None = None) -> Oracle:
    """An oracle that also interprets calls to plain functions of the analysed module (`functions`: name -> FuncInfo): a private helper a decision
    was extracted into is evaluated with the rest (positional / keyword arguments, literal defaults)."""
    def orc(call: ast.Call, env: dict[str, Any]) -> Any:
        if oracle is not None:
            v = oracle(call, env)
            if v is not NotImplemented:
                return v
        if isinstance(call.func, ast.Name) and call.func.id in functions:
            fn = functions[call.func.id]
            node = fn.node
            params = [a.arg for a in node.args.args]
            if node.args.vararg or node.args.kwarg or any(isinstance(a, ast.Starred) for a in call.args) or len(call.args) > len(params):
                return NotImplemented
            bound = {p: eval_expr(a, env, orc) for p, a in zip(params, call.args)}
            for k in call.keywords:
                if k.arg is None or k.arg in bound:
                    return NotImplemented
                bound[k.arg] = eval_expr(k.value, env, orc)
            defaults = dict(zip(reversed(params), reversed(node.args.defaults)))
            for a, d in zip(node.args.kwonlyargs, node.args.kw_defaults):
                if d is not None:
                    defaults[a.arg] = d
            for p in params + [a.arg for a in node.args.kwonlyargs]:
                if p not in bound:
                    if p not in defaults:
                        return NotImplemented
                    bound[p] = eval_expr(defaults[p], {}, orc)
            ret, env2 = run_function(node, bound, orc)
            return eval_expr(ret.value, env2, orc) if ret is not None and ret.value is not None else None
        return NotImplemented
    return orc
